#!/bin/sh
# Build the fact extractor and prime the dependency caches (offline).
set -e
cd "$(dirname "$0")"
exec python3 -m ipprules.setup
