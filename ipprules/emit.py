"""Emission events: the ordered calls that append bytes to a buffer, with loop structure."""
from .terms import is_call

PUTS = {
    "bytes::BufMut::put_u8": ("u8", 1), "bytes::BufMut::put_i8": ("i8", 1),
    "bytes::BufMut::put_u16": ("u16", 2), "bytes::BufMut::put_i16": ("i16", 2),
    "bytes::BufMut::put_u32": ("u32", 4), "bytes::BufMut::put_i32": ("i32", 4),
    "bytes::BufMut::put_u64": ("u64", 8), "bytes::BufMut::put_i64": ("i64", 8),
    "bytes::BufMut::put_slice": ("slice", None), "bytes::BufMut::put": ("buf", None),
    "bytes::BufMut::put_bytes": ("fill", None),
}
# little/native-endian and other writers that must not appear (R-BE) are caught by name
def is_put(t):
    return is_call(t) and (t[1] in PUTS or t[1].startswith("bytes::BufMut::put"))


class Ev:
    """('put', kind, width, value_term, node, conds)  or  ('for', iter_term, pat, bodies, node, conds)
    bodies = list of (conds, [Ev], kind) per body path."""
    def __init__(self, tag, **kw):
        self.tag = tag
        self.__dict__.update(kw)

    def __repr__(self):
        from .symx import tshow
        if self.tag == "put":
            return "put_%s(%s)" % (self.kind, tshow(self.value)[:80])
        return "for %s in %s {%s}" % (self.patname, tshow(self.iter)[:60], " | ".join(str(b[1]) for b in self.bodies))


def events_of_trace(trace, base_conds_len=0, conds=None):
    out = []
    for t in trace:
        if not is_call(t):
            continue
        if is_put(t):
            kind, width = PUTS.get(t[1], (t[1].split("::")[-1], None))
            val = t[2][1] if len(t[2]) > 1 else None
            out.append(Ev("put", kind=kind, width=width, value=val, node=t[3], method=t[1]))
        elif t[1] == "<for>":
            info = t[3]
            bodies = []
            for p in info["paths"]:
                bodies.append((p.conds, events_of_trace(p.trace), p.kind))
            out.append(Ev("for", iter=t[2][0], patname=t[2][1][1], pat=info.get("pat"), bodies=bodies, node=info))
        elif t[1] == "<loop>":
            info = t[3]
            bodies = []
            for p in info["paths"] + info.get("breaks", []):
                bodies.append((p.conds, events_of_trace(p.trace), p.kind))
            out.append(Ev("for", iter=("opaque", "loop"), patname="", pat=None, bodies=bodies, node=info))
    return out


def flat_puts(events):
    """All put events, depth-first."""
    for e in events:
        if e.tag == "put":
            yield e
        else:
            for _c, evs, _k in e.bodies:
                yield from flat_puts(evs)
