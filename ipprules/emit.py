"""Emission events: the ordered calls that append bytes to a buffer, with loop structure."""
from .terms import is_call

PUTS = {
    "bytes::BufMut::put_u8": ("u8", 1), "bytes::BufMut::put_i8": ("i8", 1),
    "bytes::BufMut::put_u16": ("u16", 2), "bytes::BufMut::put_i16": ("i16", 2),
    "bytes::BufMut::put_u32": ("u32", 4), "bytes::BufMut::put_i32": ("i32", 4),
    "bytes::BufMut::put_u64": ("u64", 8), "bytes::BufMut::put_i64": ("i64", 8),
    "bytes::BufMut::put_slice": ("slice", None), "bytes::BufMut::put": ("buf", None),
    "bytes::BufMut::put_bytes": ("fill", None),
    "bytes::BytesMut::extend_from_slice": ("slice", None),
}
# little/native-endian and other writers that must not appear (R-BE) are caught by name
def is_put(t):
    return is_call(t) and (t[1] in PUTS or t[1].startswith("bytes::BufMut::put"))


class Ev:
    """('put', kind, width, value_term, node, conds)  or  ('for', iter_term, pat, bodies, node, conds)
    bodies = list of (conds, [Ev], kind) per body path."""
    def __init__(self, tag, **kw):
        self.tag = tag
        self.__dict__.update(kw)

    def __repr__(self):
        from .symx import tshow
        if self.tag == "put":
            return "put_%s(%s)" % (self.kind, tshow(self.value)[:80])
        return "for %s in %s {%s}" % (self.patname, tshow(self.iter)[:60], " | ".join(str(b[1]) for b in self.bodies))


BE_BYTES = {"core::num::<impl u16>::to_be_bytes": ("u16", 2), "core::num::<impl i16>::to_be_bytes": ("i16", 2), "core::num::<impl u32>::to_be_bytes": ("u32", 4),
            "core::num::<impl i32>::to_be_bytes": ("i32", 4), "core::num::<impl u64>::to_be_bytes": ("u64", 8), "core::num::<impl i64>::to_be_bytes": ("i64", 8),
            "core::num::<impl u8>::to_be_bytes": ("u8", 1), "core::num::<impl i8>::to_be_bytes": ("i8", 1)}


def _fold_len(v):
    """`[a, b, c].len()` is 3 (also under a cast)."""
    if isinstance(v, tuple) and v[0] == "cast":
        x = _fold_len(v[2])
        return x if (x is not v[2] and x[0] == "lit") else v
    if is_call(v) and v[1].split("::")[-1] == "len" and len(v[2]) == 1 and isinstance(v[2][0], tuple) and v[2][0][0] == "array":
        return ("lit", len(v[2][0][1]))
    return v


def _slice_as_puts(val, t):
    """put_slice(&x.to_be_bytes()) is put_uN(x); put_slice(&[b0, b1, ..]) is one put_u8 per element, where the consecutive bytes
    x.to_be_bytes()[0..n] are again put_uN(x). None when the slice is anything else (text, caller data)."""
    if is_call(val) and val[1] in BE_BYTES and len(val[2]) == 1:
        kind, width = BE_BYTES[val[1]]
        return [Ev("put", kind=kind, width=width, value=val[2][0], node=t[3], method="bytes::BufMut::put_" + kind)]
    if not (isinstance(val, tuple) and val[0] == "array"):
        return None
    out, els, i = [], val[1], 0
    while i < len(els):
        e = els[i]
        if isinstance(e, tuple) and e[0] == "index" and is_call(e[1]) and e[1][1] in BE_BYTES and e[2] == ("lit", 0):
            kind, width = BE_BYTES[e[1][1]]
            run = els[i:i + width]
            if len(run) == width and all(isinstance(x, tuple) and x[0] == "index" and x[1] == e[1] and x[2] == ("lit", j) for j, x in enumerate(run)):
                out.append(Ev("put", kind=kind, width=width, value=e[1][2][0], node=t[3], method="bytes::BufMut::put_" + kind))
                i += width
                continue
        out.append(Ev("put", kind="u8", width=1, value=e, node=t[3], method="bytes::BufMut::put_u8"))
        i += 1
    return out


def events_of_trace(trace, base_conds_len=0, conds=None):
    out = []
    for t in trace:
        if not is_call(t):
            continue
        if is_put(t):
            kind, width = PUTS.get(t[1], (t[1].split("::")[-1], None))
            val = t[2][1] if len(t[2]) > 1 else None
            val = _fold_len(val)
            if kind == "slice":
                split = _slice_as_puts(val, t)
                if split is not None:
                    out.extend(split)
                    continue
            out.append(Ev("put", kind=kind, width=width, value=val, node=t[3], method=t[1]))
        elif t[1] == "<for>":
            info = t[3]
            bodies = []
            for p in info["paths"]:
                bodies.append((p.conds, events_of_trace(p.trace), p.kind))
            out.append(Ev("for", iter=t[2][0], patname=t[2][1][1], pat=info.get("pat"), bodies=bodies, node=info))
        elif t[1] == "<loop>":
            info = t[3]
            bodies = []
            for p in info["paths"] + info.get("breaks", []):
                bodies.append((p.conds, events_of_trace(p.trace), p.kind))
            out.append(Ev("for", iter=("opaque", "loop"), patname="", pat=None, bodies=bodies, node=info))
    return out


def flat_puts(events):
    """All put events, depth-first."""
    for e in events:
        if e.tag == "put":
            yield e
        else:
            for _c, evs, _k in e.bodies:
                yield from flat_puts(evs)
