"""Positive examples for rules whose expected count on the real tree is zero (DESIGN.md 2.6).

A rule that matches nothing passes vacuously forever. For each such rule a *fact-level mutant* is built on every
run from the facts just extracted - one callee renamed to a forbidden API, one operation renamed to a reordering
one, one fake static / impl added - and the rule must report it. A rule that stays silent on its positive example
fails the check (fail closed). This exercises the rule code against this run's real fact shapes; the extractor's
own naming is exercised by the non-zero rules."""
import copy

from .engine import Run
from .facts import Facts, walk


def _rename_callee(d, body_pred, old, new, key="callee", limit=1):
    n = 0
    for b in d["hir"]:
        if not body_pred(b["def"]):
            continue
        for x in walk(b["body"]):
            if x.get(key) == old:
                x[key] = new
                if key == "callee" and x.get("k") == "mcall":
                    x["name"] = new.split("::")[-1]
                n += 1
                if n >= limit:
                    return n
    return n


def _rename_any(d, body_pred, new):
    """Rename the first resolved call of a body, whatever it calls (the positive example must not depend on how the body is written)."""
    for b in d["hir"]:
        if not body_pred(b["def"]):
            continue
        for x in walk(b["body"]):
            if x.get("k") in ("mcall", "call") and x.get("callee") and not x.get("ctor"):
                x["callee"] = new
                if x.get("k") == "mcall":
                    x["name"] = new.split("::")[-1]
                return 1
    return 0


def _scratch():
    r = Run("SELF", "quick", "other")
    r.known = {}
    return r


def _fired(run, rule_prefix):
    return any(v["rule"].startswith(rule_prefix) for v in run.violations)


def cases():
    from . import codecrules as cr
    from . import guardrules as gr
    from . import readerrules as rr

    def be(d):
        return _rename_callee(d, lambda p: p == "ipp::IppHeader::to_bytes", "bytes::BufMut::put_u16", "bytes::BufMut::put_u16_le") or \
            _rename_callee(d, lambda p: p.startswith("ipp::") and "::tests::" not in p, "bytes::BufMut::put_u16", "bytes::BufMut::put_u16_le")

    def forbidden_io(d):
        return _rename_callee(d, lambda p: p == "ipp::reader::IppReader::<R>::read_u8", "std::io::Read::read_exact", "std::io::Read::read") or \
            _rename_callee(d, lambda p: p.startswith("ipp::reader::IppReader::") and "::tests::" not in p, "std::io::Read::read_exact", "std::io::Read::read")

    def strict_utf8(d):
        return _rename_callee(d, lambda p: p.startswith(("ipp::value::", "ipp::reader::")) and "::tests::" not in p, "std::string::String::from_utf8_lossy", "std::string::String::from_utf8")

    def map_err(d):
        return _rename_callee(d, lambda p: p.startswith(("ipp::reader::", "ipp::parser::")) and "::tests::" not in p, "std::result::Result::<T, E>::map", "std::result::Result::<T, E>::map_err") or \
            _rename_callee(d, lambda p: p.startswith("ipp::reader::IppReader") and "::tests::" not in p, "std::io::Read::read_exact", "std::result::Result::<T, E>::map_err")

    def reorder(d):
        n = 0
        for pred in (lambda q: q == "ipp::parser::ParserState::parse_delimiter", lambda q: q.startswith("ipp::parser::ParserState::")):
            for b in d["hir"]:
                if pred(b["def"]):
                    for x in walk(b["body"]):
                        if x.get("k") == "mcall" and x.get("name") in ("push", "extend") and "IppAttributeGroup" in str(x["recv"].get("ty")) + str(x["recv"].get("adj")):
                            x["name"] = "insert"
                            n += 1
            if n:
                return n
        return n

    def new_static(d):
        d["types"]["consts"].append({"path": "ipp::client::blocking::SHARED_TLS", "dk": "Static { safety: Safe", "ty": "once_cell::sync::OnceCell<()>", "file": "ipp/src/client.rs",
                                     "line": 1, "vis": "Restricted", "value": None})
        return 1

    def danger_unlisted(d):
        return _rename_callee(d, lambda p: p.endswith("IppClient::send") or p.endswith("AsyncIppClient::send"), "reqwest::ClientBuilder::user_agent",
                              "reqwest::ClientBuilder::danger_unlisted_api") or \
            _rename_callee(d, lambda p: p.endswith("IppClient::send"), "ureq::AgentBuilder::user_agent", "ureq::AgentBuilder::danger_unlisted_api")

    def future_impl(d):
        d["types"]["impls"].append({"self": "ipp::reader::Fake", "self_adt": "ipp::reader::Fake", "trait": "std::future::Future", "file": "ipp/src/reader.rs", "line": 1,
                                    "from_expansion": False, "macros": [], "automatically_derived": False, "items": []})
        return 1

    def explicit_panic(d):
        return _rename_callee(d, lambda p: p == "ipp::parser::list_or_value", "std::vec::Vec::<T, A>::len", "core::panicking::panic") or \
            _rename_any(d, lambda p: p == "ipp::parser::list_or_value", "core::panicking::panic")

    def rule_be(run, F):
        cr.r_be(run, F)

    def rule_readexact(run, F):
        rr.r_readexact(run, F)

    def rule_lossy(run, F):
        rr.r_lossy(run, F)

    def rule_errwrap(run, F):
        rr.r_errwrap(run, F)

    def rule_ordered(run, F):
        from .props.c19 import check_ordered
        check_ordered(run, F)

    def rule_c12(run, F):
        from .props import c12
        c12.check(run, {F.cfg: {"ipp": F}}, "quick")

    def rule_c05(run, F):
        from .props import c05
        c05.check(run, {F.cfg: {"ipp": F}}, "quick")

    def rule_guard(run, F):
        import json
        import os
        from .engine import VERIF, load_json
        T = load_json(os.path.join(VERIF, "tables", "panic.json"))
        gr.r_guard(run, F, T, {"ipp::parser::list_or_value"})

    return [
        ("R-BE fires on a little-endian put", ("C03",), be, rule_be, "R-BE"),
        ("R-READEXACT fires on a plain read() of the source", ("C06", "C07", "C02"), forbidden_io, rule_readexact, "R-READEXACT"),
        ("R-LOSSY fires on a rejecting text conversion", ("C04",), strict_utf8, rule_lossy, "R-LOSSY"),
        ("R-ERRWRAP fires on map_err in the parse cone", ("C07",), map_err, rule_errwrap, "R-ERRWRAP"),
        ("R-ORDERED fires on insert() into the group list", ("C19", "C04"), reorder, rule_ordered, "R-ORDERED"),
        ("R-TLSSTATIC fires on a new static in the client module", ("C12",), new_static, rule_c12, "R-TLSSTATIC"),
        ("R-TLSGATE fires on an unlisted danger API", ("C12",), danger_unlisted, rule_c12, "R-TLSGATE"),
        ("R-TWIN fires on a hand-written Future in the reader", ("C05",), future_impl, rule_c05, "R-TWIN"),
        ("R-GUARD fires on an explicit panic in the cone", ("C02",), explicit_panic, rule_guard, "R-GUARD"),
    ]


def run_selfchecks(run, pid, views):
    """Run the positive examples relevant to `pid` on a mutated copy of this run's facts."""
    todo = [c for c in cases() if pid in c[1]]
    if not todo:
        return
    # pick a configuration that has what the rule needs
    pick = None
    for cfg in sorted(views):
        F = views[cfg].get("ipp")
        if F is None:
            continue
        if pid in ("C12",) and not ({"client", "async-client"} & F.features):
            continue
        if pid == "C05" and "async" not in F.features:
            continue
        pick = F
        break
    if pick is None:
        return
    saved_cfg = run.cfg
    run.cfg = "selftest"
    for name, _pids, mutate, rule, prefix in todo:
        d = copy.deepcopy(pick.d)
        n = mutate(d)
        scratch = _scratch()
        scratch.exceptions = run.exceptions
        try:
            if n:
                rule(scratch, Facts(d))
        except Exception as e:  # a crash on the positive example is a failure of the rule too
            n = 0
            name += " (crashed: %r)" % (e,)
        ok = bool(n) and _fired(scratch, prefix)
        run.ob("SELFTEST", name, ok, "the rule stayed silent on its positive example (mutated %d fact node(s)): it would pass vacuously" % n,
               key="SELFTEST|%s" % prefix)
    run.cfg = saved_cfg
