"""Run the ippfacts driver over /repo under the configurations of DESIGN.md section 1.4 and
load the fact files. Every call re-analyses the workspace members from /repo's current
working tree: members' fingerprints are deleted first and the fact file must echo this
run's nonce, so a stale file can never be mistaken for a fresh one."""
import glob
import json
import os
import shutil
import subprocess
import sys
import time
import uuid

VERIF = os.path.dirname(os.path.dirname(os.path.abspath(__file__)))
REPO = os.environ.get("IPP_REPO", "/repo")
# IPP_CACHE lets a long-running self-test tool (seed matrix, determinism sweep) use its own cargo target directories so that it can
# run next to an interactive ./check; the driver binary is shared
CACHE = os.environ.get("IPP_CACHE") or os.path.join(VERIF, ".cache")
DRIVER_SRC = os.path.join(VERIF, "ippfacts")
DRIVER_TARGET = os.path.join(VERIF, ".cache", "driver-target")
DRIVER = os.path.join(DRIVER_TARGET, "debug", "ippfacts")

CONFIGS = {
    "A": {"args": ["--workspace"], "crates": ["ipp", "ipputil"],
          "why": "workspace default: what ships; async twins; ipputil"},
    "B": {"args": ["-p", "ipp", "--all-features"], "crates": ["ipp"],
          "why": "all TLS backend blocks, blocking client, serde derives"},
    "C": {"args": ["-p", "ipp", "--no-default-features"], "crates": ["ipp"],
          "why": "sync-only build"},
    "D": {"args": ["-p", "ipp", "--no-default-features", "--features", "client-rustls,async-client-rustls"],
          "crates": ["ipp"], "why": "rustls blocks without native-tls shadowing"},
}
MEMBER_PREFIXES = ("ipp-", "ipp_util-", "ipp-util-", "ipputil-", "ipp-examples-", "ipp_examples-")
M1_FILTER = "ipp::parser::"     # elaborated MIR of every (non-async) fn of the parser module: helpers added later are covered too


class ExtractError(Exception):
    pass


def sysroot():
    return subprocess.check_output(["rustc", "+nightly", "--print", "sysroot"], text=True).strip()


def base_env():
    env = dict(os.environ)
    env["CARGO_NET_OFFLINE"] = "true"
    env["LD_LIBRARY_PATH"] = os.path.join(sysroot(), "lib") + ":" + env.get("LD_LIBRARY_PATH", "")
    return env


def driver_sources_mtime():
    m = 0
    for p in glob.glob(os.path.join(DRIVER_SRC, "src", "*.rs")) + [os.path.join(DRIVER_SRC, "Cargo.toml")]:
        m = max(m, os.path.getmtime(p))
    return m


def ensure_driver(verbose=False):
    """Build the driver if missing or older than its sources."""
    if os.path.exists(DRIVER) and os.path.getmtime(DRIVER) >= driver_sources_mtime():
        return DRIVER
    os.makedirs(DRIVER_TARGET, exist_ok=True)
    env = base_env()
    env["CARGO_TARGET_DIR"] = DRIVER_TARGET
    r = subprocess.run(["cargo", "+nightly", "build", "--offline"], cwd=DRIVER_SRC, env=env,
                       stdout=subprocess.PIPE, stderr=subprocess.STDOUT, text=True)
    if r.returncode != 0 or not os.path.exists(DRIVER):
        raise ExtractError("cannot build ippfacts driver:\n" + r.stdout[-4000:])
    if verbose:
        print("built driver", file=sys.stderr)
    return DRIVER


def _forget_members(target_dir):
    fp = os.path.join(target_dir, "debug", ".fingerprint")
    if not os.path.isdir(fp):
        return
    for name in os.listdir(fp):
        if name.startswith(MEMBER_PREFIXES):
            shutil.rmtree(os.path.join(fp, name), ignore_errors=True)


def run_config(cfg, out_dir, nonce, repo=REPO, crates=None, m1=M1_FILTER):
    spec = CONFIGS[cfg]
    target_dir = os.path.join(CACHE, "target-" + cfg)
    os.makedirs(target_dir, exist_ok=True)
    _forget_members(target_dir)
    env = base_env()
    env.update({
        "IPPFACTS_OUT": out_dir,
        "IPPFACTS_CFG": cfg,
        "IPPFACTS_NONCE": nonce,
        "IPPFACTS_M1": m1,
        "IPPFACTS_CRATES": ",".join(crates or spec["crates"]),
        "RUSTFLAGS": "-Zmir-opt-level=0 -Awarnings",
        "RUSTC_WORKSPACE_WRAPPER": DRIVER,
        "CARGO_TARGET_DIR": target_dir,
    })
    cmd = ["cargo", "+nightly", "check", "--offline"] + spec["args"]
    t0 = time.time()
    r = subprocess.run(cmd, cwd=repo, env=env, stdout=subprocess.PIPE, stderr=subprocess.STDOUT, text=True)
    if r.returncode != 0:
        raise ExtractError("cargo check failed for cfg %s (the tree does not compile under this "
                           "configuration, or the driver crashed):\n%s" % (cfg, r.stdout[-6000:]))
    facts = {}
    for crate in (crates or spec["crates"]):
        path = os.path.join(out_dir, "%s.%s.json" % (crate, cfg))
        if not os.path.exists(path):
            raise ExtractError("fact file %s was not written during this run (stale cache?)" % path)
        with open(path) as f:
            d = json.load(f)
        if d.get("nonce") != nonce:
            raise ExtractError("fact file %s is stale: nonce %r != %r" % (path, d.get("nonce"), nonce))
        facts[crate] = d
    return facts, time.time() - t0


def extract(cfgs, repo=REPO, keep=False):
    """Returns {cfg: {crate: facts}} plus metadata."""
    # Checker-testing aid only (tools/determinism.py): reuse one extraction of a *scratch* tree across several rule runs.
    # Refused unless the evidence goes elsewhere too, so a registered command can never be served from a snapshot.
    tc = os.environ.get("IPP_TEST_FACTS_CACHE")
    if tc:
        if not os.environ.get("IPP_EVIDENCE_DIR") or not os.environ.get("IPP_REPO"):
            raise ExtractError("IPP_TEST_FACTS_CACHE is a checker-testing aid: it needs IPP_REPO and IPP_EVIDENCE_DIR pointing at scratch locations")
        path = os.path.join(tc, "facts-%s.json" % "".join(cfgs))
        if os.path.exists(path):
            with open(path) as f:
                d = json.load(f)
            return d["facts"], d["meta"]
        os.environ.pop("IPP_TEST_FACTS_CACHE")
        try:
            facts, meta = extract(cfgs, repo=repo, keep=keep)
        finally:
            os.environ["IPP_TEST_FACTS_CACHE"] = tc
        os.makedirs(tc, exist_ok=True)
        with open(path, "w") as f:
            json.dump({"facts": facts, "meta": meta}, f)
        return facts, meta
    ensure_driver()
    nonce = uuid.uuid4().hex
    out_dir = os.path.join(CACHE, "facts", nonce)
    os.makedirs(out_dir, exist_ok=True)
    allfacts = {}
    meta = {"nonce": nonce, "configs": {}}
    try:
        for cfg in cfgs:
            facts, dt = run_config(cfg, out_dir, nonce, repo=repo)
            allfacts[cfg] = facts
            meta["configs"][cfg] = {
                "cargo_args": CONFIGS[cfg]["args"], "why": CONFIGS[cfg]["why"], "wall_s": round(dt, 2),
                "crates": {c: {"features": f["features"], "hir_bodies": len(f["hir"]), "mir_bodies": len(f["mir"]),
                               "mir_elab_bodies": len(f["mir_elab"]), "adts": len(f["types"]["adts"]),
                               "impls": len(f["types"]["impls"]), "consts": len(f["types"]["consts"])}
                           for c, f in facts.items()},
            }
    finally:
        if not keep:
            shutil.rmtree(out_dir, ignore_errors=True)
    return allfacts, meta


def frame_sizes(repo=REPO):
    """Thorough tier (O): stack frame sizes of the monomorphised functions of the `ipp` lib (sync-only configuration),
    read from the object code with the sysroot's llvm-readobj. Nothing is run. Returns [(demangled name, bytes)]."""
    import re
    target_dir = os.path.join(CACHE, "target-O")
    os.makedirs(target_dir, exist_ok=True)
    _forget_members(target_dir)
    for f in glob.glob(os.path.join(target_dir, "debug", "deps", "ipp-*.o")):
        os.remove(f)
    env = base_env()
    env["CARGO_TARGET_DIR"] = target_dir
    cmd = ["cargo", "+nightly", "rustc", "-p", "ipp", "--lib", "--offline", "--no-default-features", "--",
           "-Zemit-stack-sizes", "--emit=obj", "-Ccodegen-units=1", "-Awarnings"]
    r = subprocess.run(cmd, cwd=repo, env=env, stdout=subprocess.PIPE, stderr=subprocess.STDOUT, text=True)
    if r.returncode != 0:
        raise ExtractError("cannot emit object code for frame sizes:\n" + r.stdout[-3000:])
    objs = glob.glob(os.path.join(target_dir, "debug", "deps", "ipp-*.o"))
    if len(objs) != 1:
        raise ExtractError("expected one ipp object file, found %s" % objs)
    readobj = glob.glob(os.path.join(sysroot(), "lib", "rustlib", "*", "bin", "llvm-readobj"))
    if not readobj:
        raise ExtractError("llvm-readobj not found in the nightly sysroot")
    out = subprocess.check_output([readobj[0], "--stack-sizes", "--demangle", objs[0]], text=True, stderr=subprocess.DEVNULL)
    return [(n, int(s, 16)) for n, s in re.findall(r"Functions: \[(.*?)\]\s*\n\s*Size: (0x[0-9a-fA-F]+)", out)]
