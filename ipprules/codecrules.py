"""Codec rules shared by C01 / C03 / C04: R-TAGMAP, R-LAYOUT, R-LENPREFIX, R-TAGBODY, R-BRACKET, R-CAST,
R-BE, R-FRAME, R-MAPKEY.  All work on the path-wise terms / emission events of the resolved HIR."""
import os

from .emit import events_of_trace, flat_puts
from .engine import VERIF, load_json
from .facts import callee, show, site, unwrap, walk
from .symx import all_calls, closure_paths, cshow, paths_of, tshow
from .terms import display_norm, is_call, is_map_call, mentions, opt_polarity, pat_variants, same, subterms

V = "ipp::value::IppValue::"
VT = "ipp::model::ValueTag::"
TO_BYTES = "ipp::value::IppValue::to_bytes"
TO_TAG = "ipp::value::IppValue::to_tag"
PARSE = "ipp::value::IppValue::parse"
SELF = ("var", "self")
LEN_CALLS = ("std::string::String::len", "bytes::Bytes::len", "core::str::<impl str>::len", "core::slice::<impl [T]>::len", "std::vec::Vec::<T, A>::len")
BYTES_CALLS = ("std::string::String::as_bytes", "core::str::<impl str>::as_bytes", "std::convert::AsRef::as_ref", "std::ops::Deref::deref")


def layout_table():
    return load_json(os.path.join(VERIF, "tables", "layout.json"))


def arm_variants(p):
    """IppValue variants assumed by a path (from its `match self` condition)."""
    for c in p.conds:
        if c[0] == "match" and (c[1] == SELF or (isinstance(c[1], tuple) and c[1][0] == "un")) and len(c) > 4:
            vs = sorted(v for v in pat_variants(c[4]) if v.startswith(V))
            if vs:
                return vs
            if c[4].get("k") in ("wild", "bind"):
                return ["*"]
    return []


def field_of_self(t):
    """('Variant', 'field') if t is a projection of a field of self's variant (through or-pattern projections)."""
    while isinstance(t, tuple) and t[0] == "proj":
        what = t[2]
        base = t[1]
        if "." in what and what != "or":
            var, fld = what.split(".", 1)
            inner = base
            while isinstance(inner, tuple) and inner[0] == "proj" and inner[2] == "or":
                inner = inner[1]
            if inner == SELF:
                return var, fld
        t = base
    return None


INT_CONV = ("std::convert::From::from", "std::convert::Into::into", "std::convert::TryFrom::try_from")


def strip_cast(t):
    casts = []
    while isinstance(t, tuple) and (t[0] == "cast" or (is_call(t) and t[1] in INT_CONV[:2] and len(t[2]) == 1 and int_typed(t))):
        if t[0] == "cast":
            casts.append(t[1])
            t = t[2]
        else:
            casts.append((t[3].get("ty") if len(t) > 3 and isinstance(t[3], dict) else None) or "usize")
            t = t[2][0]
    return t, casts


def int_typed(t):
    ty = (t[3].get("ty") if len(t) > 3 and isinstance(t[3], dict) else "") or ""
    return ty in ("u8", "u16", "u32", "u64", "usize", "i8", "i16", "i32", "i64", "isize", "u128", "i128")


def linear(t):
    """Linear form {len(field): coeff, '': const} of a length expression, or None."""
    t, _ = strip_cast(t)
    if isinstance(t, tuple) and t[0] == "lit" and isinstance(t[1], int):
        return {"": t[1]}
    if is_call(t) and t[1] in LEN_CALLS:
        x = t[2][0]
        while is_call(x) and x[1] in BYTES_CALLS:      # s.as_bytes().len() is s.len()
            x = x[2][0]
        f = field_of_self(x)
        return {f: 1} if f else None
    if isinstance(t, tuple) and t[0] == "bin" and t[1] == "Add":
        a, b = linear(t[2]), linear(t[3])
        if a is None or b is None:
            return None
        out = dict(a)
        for k, v in b.items():
            out[k] = out.get(k, 0) + v
        return out
    return None


def encoder_items(events):
    """Wire items of a loop-free encoder arm after normalisation:
    ('int', width, (variant, field), casts) | ('len16', linear form, term) | ('bytes', (variant, field)) | ('const', width, value) | ('?', ev)"""
    items = []
    for e in events:
        if e.tag != "put":
            items.append(("loop", e))
            continue
        v = e.value
        if e.kind in ("slice", "buf"):
            x = v
            while is_call(x) and x[1] in BYTES_CALLS:
                x = x[2][0]
            f = field_of_self(x)
            items.append(("bytes", f) if f else ("?", e))
            continue
        if e.width is None or v is None:
            items.append(("?", e))
            continue
        inner, casts = strip_cast(v)
        if isinstance(inner, tuple) and inner[0] == "lit" and isinstance(inner[1], int) and not isinstance(inner[1], bool):
            items.append(("const", e.width, inner[1]))
            continue
        f = field_of_self(inner)
        if f:
            items.append(("int", e.width, f, casts, e.kind))
            continue
        lf = linear(v)
        if lf is not None:
            items.append(("len", e.width, lf, v))
            continue
        items.append(("?", e))
    return items


# ---------------------------------------------------------------------------------------------
def r_tagmap(run, F, T, check_registry=True, rule="R-TAGMAP"):
    """kind -> tag -> kind."""
    tb, pb = F.body(TO_TAG), F.body(PARSE)
    if tb is None or pb is None:
        run.anchor_lost(rule, TO_TAG + " / " + PARSE)
        return 0
    vt_adt = F.adts.get("ipp::model::ValueTag")
    discr = {v["path"]: v["discr"] for v in vt_adt["variants"]} if vt_adt else {}
    to_tag = {}
    array_paths = []
    for p in paths_of(tb):
        vs = arm_variants(p)
        r = p.ret
        if V + "Array" in vs:
            array_paths.append(p)
        for v in vs:
            if r[0] == "cast" and r[2][0] == "ctor" and r[2][1].startswith(VT):
                new = ("tag", r[2][1])
            elif field_of_self(r) == ("Other", "tag"):
                new = ("own-tag",)
            elif is_call(r, "std::option::Option::<T>::unwrap_or", "std::option::Option::<T>::map_or") and any(is_call(x, "core::slice::<impl [T]>::first") for x in subterms(r)):
                m = mentions(r)
                if r[1].endswith("::map_or") and len(r[2]) == 3 and r[2][2][0] == "def":
                    m = dict(m, callees=set(m["callees"]) | {r[2][2][1]})       # map_or(default, Self::to_tag): the mapping fn is a path
                dflt = r[2][1]
                new = ("first-element", TO_TAG in m["callees"], dflt[2][1] if dflt[0] == "cast" and dflt[2][0] == "ctor" else None)
            else:
                new = ("?", tshow(r)[:80])
            if v in to_tag and to_tag[v] != new and v != V + "Array":
                # a guarded arm gives the same kind a second tag: the decoder cannot map both back
                run.ob(rule, "%s has one tag on every path" % v.split("::")[-1], False, "to_tag gives %s on one path and %s on another" % (to_tag[v], new), site(tb),
                       key="%s|to_tag|two-tags|%s" % (rule, v))
                new = ("?", "two tags")
            to_tag[v] = new
    from_tag = {}
    fallback_ok = []
    for p in paths_of(pb):
        r = p.ret
        val = r[2][0] if (r[0] == "ctor" and r[1].endswith("::Ok") and r[2]) else None
        tagv = None
        tagvs = []
        for c in p.conds:
            if c[0] == "match" and len(c) > 4:
                alts = sorted(pv for pv in pat_variants(c[4]) if pv.startswith(VT))
                if alts:
                    tagv = alts[0]
                    tagvs = alts      # every alternative of an or-pattern decodes to this arm's kind
                if is_call(c[1], "num_traits::FromPrimitive::from_u8", "ipp::model::ValueTag::from_u8") and opt_polarity(c) is False:
                    tagv = "<unknown byte>"      # `None =>` arm, `let Some(..) = .. else`, `if let Some .. else`
                if isinstance(c[1], tuple) and c[1][0] == "proj" and c[4].get("k") in ("wild", "bind") and tagv is None:
                    tagv = "<other tags>"
        both = False
        for c in p.conds:
            if c[0] == "match" and len(c) > 4 and is_call(c[1], "num_traits::FromPrimitive::from_u8", "ipp::model::ValueTag::from_u8") and isinstance(c[4], dict) and c[4].get("k") == "por":
                alts_ = c[4]["pats"]
                has_none = any(a_.get("k") == "pexpr" and str(a_.get("path", "")).endswith("::None") for a_ in alts_)
                has_rest = any(a_.get("k") == "ptuplestruct" and str(a_.get("path", "")).endswith("::Some") and len(a_["pats"]) == 1 and a_["pats"][0].get("k") in ("wild", "bind") for a_ in alts_)
                if has_none and has_rest:
                    tagv, both = "<unknown byte>", True      # `None | Some(_) => Other { .. }`: the two fallbacks in one arm
        if val is None:
            continue
        kind = val[1] if val[0] == "ctor" else None
        if tagv in ("<unknown byte>", "<other tags>"):
            ok = val[0] == "ctor" and val[1] == V + "Other" and isinstance(val[2], dict) and val[2].get("tag") == ("var", pb["params"][0].get("name")) and \
                val[2].get("data") == ("var", pb["params"][1].get("name"))
            fallback_ok.append(ok)
            if both:
                fallback_ok.append(ok)
            run.ob(rule, "parse fallback %s keeps tag and bytes" % tagv, ok, "fallback builds %s" % tshow(val)[:120], site(pb), key="%s|parse|fallback|%s" % (rule, tagv))
        elif tagv:
            for tv in tagvs or [tagv]:
                run.ob(rule, "parse decodes %s in one arm only" % tv.split("::")[-1], from_tag.get(tv, kind) == kind,
                       "tag %s is decoded as %s and as %s on different paths" % (tv.split("::")[-1], from_tag.get(tv), kind), site(pb), key="%s|parse|two-kinds|%s" % (rule, tv))
                from_tag[tv] = kind
    n = 0
    fixed = [k for k in T["kinds"] if k != "Other"]
    seen_tags = {}
    for k in fixed:
        vp = V + k
        tt = to_tag.get(vp)
        n += 1
        if not tt or tt[0] != "tag":
            run.ob(rule, "%s has a fixed tag" % k, False, "to_tag(%s) = %s" % (k, tt), site(tb), key="%s|to_tag|%s" % (rule, k))
            continue
        back = from_tag.get(tt[1])
        run.ob(rule, "parse(to_tag(%s)) = %s" % (k, k), back == vp, "to_tag gives %s, which parse decodes as %s" % (tt[1].split("::")[-1], back), site(pb),
               key="%s|roundtrip|%s" % (rule, k))
        if check_registry:
            run.ob(rule, "to_tag(%s) = 0x%02x (RFC 8010)" % (k, T["kinds"][k]["tag"]), discr.get(tt[1]) == T["kinds"][k]["tag"],
                   "to_tag gives %s = %s" % (tt[1].split("::")[-1], discr.get(tt[1])), site(tb), key="%s|registry|%s" % (rule, k))
        seen_tags.setdefault(tt[1], []).append(k)
    dup = {t: ks for t, ks in seen_tags.items() if len(ks) > 1}
    run.ob(rule, "no two kinds share a tag", not dup, str(dup), site(tb), key="%s|injective" % rule)
    # decoder side: every tag it decodes specially belongs to the kind whose encoder emits it
    for tagv, kind in from_tag.items():
        k = (kind or "").replace(V, "")
        tt = to_tag.get(kind)
        run.ob(rule, "parse decodes %s as the kind that encodes it" % tagv.split("::")[-1], tt is not None and tt[0] == "tag" and tt[1] == tagv,
               "tag %s is decoded as %s whose to_tag is %s" % (tagv.split("::")[-1], k, tt), site(pb), key="%s|decode|%s" % (rule, tagv))
    # special arms
    a = to_tag.get(V + "Array")
    ok_a = a is not None and a[0] == "first-element" and a[1] and a[2] == VT + "Unknown"
    if not ok_a and len(array_paths) == 2:
        # match array.first() { Some(v) => v.to_tag(), None => Unknown as u8 }
        some = none = False
        for p in array_paths:
            fc = [c for c in p.conds if c[0] == "match" and is_call(c[1], "core::slice::<impl [T]>::first") and field_of_self(c[1][2][0]) == ("Array", "0")]
            if not fc:
                continue
            pol = opt_polarity(fc[-1])
            if pol is True and is_call(p.ret, TO_TAG) and p.ret[2][0][0] == "proj" and p.ret[2][0][1] is fc[-1][1] or (pol is True and is_call(p.ret, TO_TAG) and p.ret[2][0][0] == "proj"):
                some = True
            if pol is False and p.ret[0] == "cast" and p.ret[2] == ("ctor", VT + "Unknown", []):
                none = True
        ok_a = some and none
    run.ob(rule, "to_tag(Array) = first element's tag (else unknown)", ok_a, str(a), site(tb),
           key="%s|to_tag|Array" % rule)
    o = to_tag.get(V + "Other")
    run.ob(rule, "to_tag(Other) = its own tag", o == ("own-tag",), str(o), site(tb), key="%s|to_tag|Other" % rule)
    c = to_tag.get(V + "Collection")
    run.ob(rule, "to_tag(Collection) = begCollection", c == ("tag", VT + "BegCollection") and (not check_registry or discr.get(VT + "BegCollection") == T["structural"]["Collection"]["begin_tag"]),
           str(c), site(tb), key="%s|to_tag|Collection" % rule)
    run.ob(rule, "parse has both fallbacks", len(fallback_ok) == 2, "%d fallback arms" % len(fallback_ok), site(pb), key="%s|parse|fallbacks" % rule)
    return n


# ---------------------------------------------------------------------------------------------
TEXT_IDENTITY = {"into_owned", "to_string", "to_owned", "into", "from", "clone", "as_ref", "deref", "borrow", "into_boxed_str", "into_string"}


def altered_by(fv, src):
    """Names of the calls between a decoded text (`src` call) and the field it is stored in that are not identity conversions."""
    if fv is None:
        return None
    bad = []

    def down(t):
        if t is src or (is_call(t) and len(t) > 3 and len(src) > 3 and t[3] is src[3]):
            return True
        if isinstance(t, tuple) and t[0] in ("ok?", "await") :
            return down(t[1])
        if is_call(t):
            for a in t[2]:
                if any(x is src or (is_call(x) and len(x) > 3 and len(src) > 3 and x[3] is src[3]) for x in subterms(a)):
                    if t[1].split("::")[-1] not in TEXT_IDENTITY:
                        bad.append(t[1].split("::")[-1])
                    return down(a)
        return False
    down(fv)
    return bad or None


def decoder_items(p, pb):
    """Ordered reads of the value buffer on one path of IppValue::parse, with destination fields."""
    r = p.ret
    val = r[2][0] if (r[0] == "ctor" and r[1].endswith("::Ok") and r[2]) else None
    if val is None or val[0] != "ctor":
        return None, None
    kind = val[1]
    fields = val[2] if isinstance(val[2], dict) else {str(i): v for i, v in enumerate(val[2])}
    data = ("var", pb["params"][1].get("name"))
    items = []
    for t in p.trace:
        if not is_call(t):
            continue
        dest = None
        for fname, fv in fields.items():
            if any(x is t or same(x, t) and x[3] is t[3] for x in subterms(fv) if is_call(x)):
                dest = fname
        if t[1].startswith("bytes::Buf::get_") and t[2][0] == data:
            suffix = t[1].split("get_")[-1]
            width = {"u8": 1, "i8": 1, "u16": 2, "i16": 2, "u32": 4, "i32": 4, "u64": 8, "i64": 8}.get(suffix)
            items.append(("int", width, dest, suffix))
        elif t[1] == "ipp::value::get_len_string" and t[2][0] == data:
            alt = altered_by(fields.get(dest), t) if dest is not None else None
            items.append(("lenstring", dest) if not alt else ("?", "text of %s altered by %s after decoding" % (dest, alt)))
        elif t[1] == "std::string::String::from_utf8_lossy" and t[2][0] == data:
            alt = altered_by(fields.get(dest), t) if dest is not None else None
            items.append(("text", dest) if not alt else ("?", "text of %s altered by %s after decoding" % (dest, alt)))
        elif t[1].startswith("bytes::Buf::") and t[2] and t[2][0] == data and t[1].split("::")[-1] not in ("remaining", "has_remaining", "chunk"):
            items.append(("?", t[1]))
    for fname, fv in fields.items():
        if fv == data:
            items.append(("raw", fname))
    return kind, items


def _layout_encoder_path(run, F, T, rule, external, casts, eb, k, spec, p, evs, sfx):
    """One encoder path of one kind: R-LENPREFIX, layout vs RFC, R-CAST. Returns the layout read off the path."""
    if any(e.tag != "put" for e in evs):
        run.ob(rule, "encoder arm for %s is loop-free" % k, False, "unexpected loop", site(eb), key="%s|enc|%s|loop%s" % (rule, k, sfx))
        return None
    items = encoder_items(evs)
    # ---- R-LENPREFIX: first item is the 2-octet value length = size of the rest -------
    if not items or items[0][0] not in ("const", "len") or items[0][1] != 2:
        run.ob("R-LENPREFIX", "%s: starts with a 2-octet value length" % k, False, "first emission %r" % (evs[0] if evs else None), site(eb), key="R-LENPREFIX|%s|missing%s" % (k, sfx))
        body = items
        prefix = None
    else:
        prefix = items[0]
        body = items[1:]
    size = {"": 0}
    bad_item = None
    for it in body:
        if it[0] == "int":
            size[""] += it[1]
        elif it[0] == "const":
            size[""] += it[1]
        elif it[0] == "len":
            size[""] += it[1]
        elif it[0] == "bytes":
            size[it[1]] = size.get(it[1], 0) + 1
        else:
            bad_item = it
    if prefix is not None and bad_item is None:
        declared = {"": prefix[2]} if prefix[0] == "const" else dict(prefix[2])
        declared.setdefault("", 0)
        size = {a: b for a, b in size.items() if b or a == ""}
        declared = {a: b for a, b in declared.items() if b or a == ""}
        run.ob("R-LENPREFIX", "%s: value length = size of what follows" % k, declared == size,
               "declared length %s, emitted body size %s (keys are (variant, field) byte lengths, '' the constant part)" % (declared, size), site(eb),
               key="R-LENPREFIX|%s|mismatch%s" % (k, sfx))
    # ---- layout vs RFC table -------------------------------------------------------------
    got = []
    for it in body:
        if it[0] == "int":
            got.append([it[1], it[2][1]])
        elif it[0] == "bytes":
            got.append({"bytes": it[1][1]})
        elif it[0] == "len":
            fs = [a for a in it[2] if a != ""]
            got.append({"len16": fs[0][1]} if (it[1] == 2 and len(fs) == 1 and it[2].get("", 0) == 0 and it[2][fs[0]] == 1) else {"?": tshow(it[3])[:40]})
        elif it[0] == "const":
            got.append({"const": it[2], "width": it[1]})
        else:
            got.append({"?": repr(it[1])[:40]})
    if external:
        run.ob(rule, "encoder layout of %s = RFC 8010 3.9" % k, got == spec["body"], "encoder writes %s, the RFC layout is %s" % (got, spec["body"]), site(eb),
               key="%s|enc|%s|rfc%s" % (rule, k, sfx))
    # ---- R-CAST ----------------------------------------------------------------------------
    adt = F.adts.get("ipp::value::IppValue")
    ftypes = {}
    if adt:
        for v in adt["variants"]:
            if v["name"] == k:
                ftypes = {f["name"]: f["ty"] for f in v["fields"]}
    for it in (body if casts else []):
        if it[0] == "int" and it[3]:
            fld = it[2][1]
            fty = ftypes.get(fld, "?")
            key = "%s->%s" % (fty, it[3][0])
            inj = T["injective_casts"].get(key)
            run.ob("R-CAST", "%s.%s: %s as %s is injective" % (k, fld, fty, it[3][0]), inj is True,
                   "field %s.%s of type %s is encoded with `as %s`, which %s; the decoded value can differ from the encoded one" % (
                       k, fld, fty, it[3][0], "is not injective" if inj is False else "is not in the reviewed cast table"), site(eb),
                   key="R-CAST|%s.%s|%s%s" % (k, fld, key, sfx))
    return got


def r_layout(run, F, T, external=True, rule="R-LAYOUT", casts=True):
    eb, pb = F.body(TO_BYTES), F.body(PARSE)
    if eb is None or pb is None:
        run.anchor_lost(rule, TO_BYTES + " / " + PARSE)
        return 0, 0
    enc = {}
    for p in paths_of(eb):
        evs = events_of_trace(p.trace)
        for v in arm_variants(p):
            enc.setdefault(v, []).append((p, evs))
    dec = {}
    for p in paths_of(pb):
        kind, items = decoder_items(p, pb)
        if kind and kind != V + "Other":
            dec.setdefault(kind, []).append((p, items))
    n_enc = n_dec = 0
    for k, spec in T["kinds"].items():
        vp = V + k
        if vp not in enc:
            run.ob(rule, "encoder arm for %s" % k, False, "no arm", site(eb), key="%s|enc|%s|missing" % (rule, k))
            continue
        # every path that encodes this kind (a guarded arm adds a second one) and every path that decodes it must have the layout
        n_enc += 1
        gots = []
        for ei, (p, evs) in enumerate(enc[vp]):
            got = _layout_encoder_path(run, F, T, rule, external, casts, eb, k, spec, p, evs, "" if ei == 0 else "|path%d" % ei)
            if got is not None:
                gots.append(got)
        if k == "Other":
            continue
        if vp not in dec:
            run.ob(rule, "decoder arm for %s" % k, False, "parse never constructs %s" % k, site(pb), key="%s|dec|%s|missing" % (rule, k))
            continue
        n_dec += 1
        for di, (dp, ditems) in enumerate(dec[vp]):
            sfx = "" if di == 0 else "|path%d" % di
            # what decides that this arm decodes the value: the tag, for fixed-size syntaxes `len == size`, for with-language the two inner strings.
            # Any further condition is an extra acceptance test: well-formed values that fail it are rejected or decoded as something else.
            size = sum(it[0] for it in spec["body"] if isinstance(it, list))
            fixed = all(isinstance(it, list) for it in spec["body"]) and bool(spec["body"])
            for c in dp.conds:
                okc = False
                if c[0] == "match":
                    okc = is_call(c[1], "num_traits::FromPrimitive::from_u8") or (isinstance(c[1], tuple) and c[1][0] == "proj" and is_call(c[1][1], "num_traits::FromPrimitive::from_u8")) \
                        or is_call(c[1], "ipp::model::ValueTag::from_u8")
                elif c[0] in ("guard", "if") and is_call(c[1], "<is_err>"):
                    okc = c[2] is False and is_call(c[1][2][0], "ipp::value::get_len_string")
                elif c[0] in ("guard", "if"):
                    # `data.len() == n` as an arm guard or as an earlier test, written positively or as a refused `!=`
                    g, pol = c[1], c[2]
                    while isinstance(g, tuple) and g[0] == "un" and g[1] == "Not":
                        g, pol = g[2], not pol
                    if isinstance(g, tuple) and g[0] == "bin" and g[1] in ("Eq", "Ne") and g[2][0] == "lit" and is_call(g[3]):
                        g = ("bin", g[1], g[3], g[2])       # commuted
                    okc = isinstance(g, tuple) and g[0] == "bin" and ((g[1] == "Eq" and pol is True) or (g[1] == "Ne" and pol is False)) and is_call(g[2]) and \
                        g[2][1] in ("bytes::Bytes::len", "bytes::Buf::remaining") and g[3][0] == "lit" and fixed and g[3][1] == size
                run.ob(rule, "decoder arm of %s is selected by tag and exact length only" % k, okc,
                       "extra or unrecognised condition on the decoding path of %s: %s (accepted: the tag match, `data.len() == %s` for a fixed-size syntax, "
                       "success of the inner length-prefixed strings)" % (k, cshow(c)[:160], size if fixed else "n"), site(pb),
                       key="%s|dec|%s|condition|%s" % (rule, k, cshow(c)[:60]))
            dgot = []
            for it in ditems:
                if it[0] == "int":
                    dgot.append([it[1], it[2]])
                elif it[0] == "lenstring":
                    dgot.append({"len16": it[1]})
                    dgot.append({"bytes": it[1]})
                elif it[0] == "text":
                    dgot.append({"bytes": it[1]})
                elif it[0] == "raw":
                    dgot.append({"bytes": it[1]})
                else:
                    dgot.append({"?": str(it[1])})
            if external:
                run.ob(rule, "decoder layout of %s = RFC 8010 3.9" % k, dgot == spec["body"], "decoder reads %s, the RFC layout is %s" % (dgot, spec["body"]), site(pb),
                       key="%s|dec|%s|rfc%s" % (rule, k, sfx))
            for gi, got in enumerate(gots):
                run.ob(rule, "encoder and decoder agree on %s" % k, dgot == got, "encoder writes %s, decoder reads %s" % (got, dgot), site(pb),
                       key="%s|agree|%s%s%s" % (rule, k, sfx, "" if gi == 0 else "|enc%d" % gi))
    # helper: get_len_string = u16 length then that many bytes
    gb = F.body("ipp::value::get_len_string")
    if gb is None:
        run.anchor_lost(rule, "ipp::value::get_len_string")
    else:
        for p in paths_of(gb):
            if p.kind == "try" or (p.ret[0] == "ctor" and p.ret[1].endswith("::Err")):
                continue
            TAKE = ("bytes::Buf::advance", "bytes::Bytes::split_to", "bytes::Buf::copy_to_bytes")
            reads = [t for t in p.trace if is_call(t) and (t[1].startswith("bytes::Buf::get_") or t[1] in TAKE)]
            ok = len(reads) == 2 and reads[0][1] == "bytes::Buf::get_u16" and reads[1][1] in TAKE
            ln = reads[1][2][1] if ok else None
            ok = ok and strip_cast(ln)[0] is not None and any(x is reads[0] or (is_call(x) and x[1] == "bytes::Buf::get_u16") for x in subterms(ln))
            sl = [x for t in p.trace for x in subterms(t) if isinstance(x, tuple) and x[0] == "index"]
            lossy = any(is_call(t, "std::string::String::from_utf8_lossy") for t in p.trace)
            run.ob(rule, "get_len_string = u16 length, that many bytes (lossy text), advance by the same length", ok and lossy,
                   "reads: %s" % [t[1].split("::")[-1] for t in reads], site(gb), key="%s|get_len_string" % rule)
    return n_enc, n_dec


# ---------------------------------------------------------------------------------------------
def tag_of(e):
    """TAG(E) event: put_u8(E.to_tag()) -> E term, or put_u8(<ValueTag const> as u8) -> ('const', variant)."""
    if e.tag != "put" or e.kind != "u8":
        return None
    v = e.value
    if is_call(v, TO_TAG):
        return ("tagof", v[2][0])
    if v[0] == "cast" and v[2][0] == "ctor" and v[2][1].startswith(VT):
        return ("const", v[2][1])
    return None


def body_of(e):
    if e.tag == "put" and e.kind == "buf" and is_call(e.value, TO_BYTES):
        return e.value[2][0]
    return None


def zero16(e):
    return e.tag == "put" and e.width == 2 and e.value == ("lit", 0)


def first_elem_cond(conds):
    """The path assumes 'this is the first element': !(i > 0) / i == 0 / !(i != 0) with i the enumerate index."""
    for c in conds:
        if c[0] != "if":
            continue
        t, pol = c[1], c[2]
        if isinstance(t, tuple) and t[0] == "bin" and t[3] == ("lit", 0) and isinstance(t[2], tuple) and t[2][0] == "proj" and t[2][2] == "0" and \
                t[2][1][0] == "elem" and any(is_call(x, "std::iter::Iterator::enumerate") for x in subterms(t[2][1])):
            if (t[1] in ("Gt", "Ne") and pol is False) or (t[1] == "Eq" and pol is True):
                return True
    return False


def check_pairs(run, evs, conds, where, eb, rule="R-TAGBODY"):
    """Within one straight-line event list: every TAG(E) is followed by u16(0) BODY(E); a BODY without TAG only for a first element."""
    n = 0
    i = 0
    while i < len(evs):
        e = evs[i]
        tg = tag_of(e)
        bd = body_of(e)
        if tg and tg[0] == "tagof":
            n += 1
            ok = i + 2 < len(evs) and zero16(evs[i + 1]) and body_of(evs[i + 2]) is not None and same(body_of(evs[i + 2]), tg[1])
            nxt = body_of(evs[i + 2]) if i + 2 < len(evs) else None
            run.ob(rule, "%s: tag, empty name, then the body of the *same* value" % where, ok,
                   "tag of %s is followed by %s (a value would be announced with another value's tag, or the tag dangles into the next iteration)" % (
                       tshow(tg[1])[:60], (tshow(nxt)[:60] if nxt is not None else [repr(x) for x in evs[i + 1:i + 3]])), site(eb, e.node),
                   key="%s|%s|mispaired" % (rule, where))
            i += 3 if ok else 1
            continue
        if bd is not None:
            n += 1
            ok = first_elem_cond(conds)
            run.ob(rule, "%s: an untagged body is the first value (its tag is the attribute's)" % where, ok,
                   "body of %s is emitted without its own tag on a path that is not restricted to the first element" % tshow(bd)[:60], site(eb, e.node),
                   key="%s|%s|untagged-body" % (rule, where))
        i += 1
    return n


def r_tagbody_bracket(run, F, T, rule="R-TAGBODY"):
    eb = F.body(TO_BYTES)
    if eb is None:
        run.anchor_lost(rule, TO_BYTES)
        return 0
    n = 0
    vt = F.adts.get("ipp::model::ValueTag")
    discr = {v["path"]: v["discr"] for v in vt["variants"]} if vt else {}
    for p in paths_of(eb):
        vs = arm_variants(p)
        evs = events_of_trace(p.trace)
        if V + "Array" in vs:
            loops = [e for e in evs if e.tag == "for"]
            sf = [x for e in evs for x in (subterms(e.value) if e.tag == "put" and e.value is not None else subterms(e.iter) if e.tag == "for" else [])
                  if is_call(x, "core::slice::<impl [T]>::split_first") and field_of_self(x[2][0]) == ("Array", "0")]
            if not evs and any(c[0] == "match" and is_call(c[1], "core::slice::<impl [T]>::split_first") for c in p.conds):
                continue        # the empty set: nothing to write
            if sf and len(evs) == 2 and evs[0].tag == "put" and body_of(evs[0]) is not None and loops == [evs[1]]:
                # `if let Some((first, rest)) = list.split_first() { body(first); for item in rest { tag, empty name, body(item) } }`
                first_t, rest_t = body_of(evs[0]), evs[1].iter
                is_part = lambda t, i: any(x[0] == "proj" and x[2] == str(i) and x[1][0] == "proj" and is_call(x[1][1], "core::slice::<impl [T]>::split_first") for x in subterms(t))
                run.ob(rule, "Array arm: first value untagged, then the rest of the split", is_part(first_t, 0) and is_part(rest_t, 1) and
                       not any(is_call(x) and x[1].split("::")[-1] in ("rev", "skip", "step_by", "take") for x in subterms(rest_t)),
                       "first = %s, rest = %s" % (tshow(first_t)[:60], tshow(rest_t)[:60]), site(eb), key="%s|Array|split-first" % rule)
                for conds, bevs, kind in evs[1].bodies:
                    n += check_pairs(run, bevs, conds, "Array", eb, rule)
                    nb = sum(1 for e in bevs if body_of(e) is not None)
                    tagged = sum(1 for e in bevs if tag_of(e))
                    run.ob(rule, "Array arm: every element is emitted, once", nb == 1 and tagged == 1,
                           "an iteration over the rest emits %d value bodies and %d tags" % (nb, tagged), site(eb), key="%s|Array|element-count|%d" % (rule, nb))
                n += 1
                continue
            run.ob(rule, "Array arm: one loop over the elements and nothing else", len(loops) == 1 and len(evs) == 1, [repr(e)[:60] for e in evs], site(eb),
                   key="%s|Array|shape" % rule)
            for lp in loops:
                over = any(field_of_self(x) == ("Array", "0") for x in subterms(lp.iter))
                run.ob(rule, "Array arm iterates the set's elements in order", over and not any(is_call(x) and x[1].split("::")[-1] in ("rev", "skip", "step_by", "take") for x in subterms(lp.iter)),
                       tshow(lp.iter)[:100], site(eb), key="%s|Array|iter" % rule)
                for conds, bevs, kind in lp.bodies:
                    n += check_pairs(run, bevs, conds, "Array", eb, rule)
                    nb = sum(1 for e in bevs if body_of(e) is not None)
                    run.ob(rule, "Array arm: every element is emitted, once", nb == 1,
                           "an iteration of the element loop emits %d value bodies under [%s]: elements are skipped or repeated" % (nb, " && ".join(cshow(c) for c in conds)[-160:]),
                           site(eb), key="%s|Array|element-count|%d" % (rule, nb))
                # some path must emit an untagged first body and some path a tagged one
                kinds = {"first": 0, "rest": 0}
                for conds, bevs, kind in lp.bodies:
                    if first_elem_cond(conds):
                        kinds["first"] += 1
                    elif any(tag_of(e) for e in bevs):
                        kinds["rest"] += 1
                run.ob(rule, "Array arm distinguishes the first value from additional values", kinds["first"] >= 1 and kinds["rest"] >= 1, str(kinds), site(eb),
                       key="%s|Array|first-vs-rest" % rule)
        if V + "Collection" in vs:
            st = T["structural"]["Collection"]
            ok0 = bool(evs) and zero16(evs[0])
            run.ob("R-BRACKET", "Collection: begin marker has an empty value", ok0, repr(evs[0]) if evs else "", site(eb), key="R-BRACKET|begin-value")
            loops = [e for e in evs if e.tag == "for"]
            run.ob("R-BRACKET", "Collection: one loop over the members", len(loops) == 1, len(loops), site(eb), key="R-BRACKET|loops")
            for lp in loops:
                for conds, bevs, kind in lp.bodies:
                    # member = TAG(name) 0 BODY(name) TAG(value) 0 BODY(value)
                    seq = bevs
                    ok = len(seq) == 6 and all(tag_of(seq[i]) for i in (0, 3)) and zero16(seq[1]) and zero16(seq[4]) and body_of(seq[2]) is not None and body_of(seq[5]) is not None
                    if ok:
                        tn, bn, tv, bv = tag_of(seq[0]), body_of(seq[2]), tag_of(seq[3]), body_of(seq[5])
                        n += 2
                        name_ok = tn[0] == "tagof" and same(tn[1], bn) and bn[0] == "ctor" and bn[1] == V + "MemberAttrName" and \
                            any(x[0] in ("proj", "field") and x[2] == "0" and x[1][0] == "elem" for x in subterms(bn))
                        val_ok = tv[0] == "tagof" and same(tv[1], bv) and bv[0] in ("proj", "field") and bv[2] == "1" and bv[1][0] == "elem"
                        run.ob(rule, "Collection member: memberAttrName tag + empty name + the member's name", name_ok, "name part: %s / %s" % (tshow(tn)[:60], tshow(bn)[:60]), site(eb),
                               key="%s|Collection|member-name" % rule)
                        run.ob(rule, "Collection member: the value's own tag + empty name + the value", val_ok, "value part: %s / %s" % (tshow(tv)[:60], tshow(bv)[:60]), site(eb),
                               key="%s|Collection|member-value" % rule)
                    else:
                        run.ob("R-BRACKET", "Collection member = name then value, each as tag/empty-name/body", False, [repr(e)[:50] for e in seq], site(eb),
                               key="R-BRACKET|member-shape")
            tail = [e for e in evs[1:] if e.tag == "put"]
            okend = len(tail) >= 2 and tag_of(tail[0]) == ("const", VT + "EndCollection") and discr.get(VT + "EndCollection") == st["end_tag"]
            zeros = sum(e.width for e in tail[1:] if e.value == ("lit", 0))
            run.ob("R-BRACKET", "Collection: end marker with empty name and empty value after the members", okend and zeros == 4 and len(tail[1:]) in (1, 2) and
                   evs.index(tail[0]) > max([evs.index(l) for l in loops] or [0]), [repr(e) for e in tail], site(eb), key="R-BRACKET|end")
    return n


# ---------------------------------------------------------------------------------------------
def r_be(run, F, rule="R-BE"):
    n = 0
    for path, body in F.hir.items():
        if "::tests::" in path:
            continue
        for x in walk(body["body"]):
            c = callee(x)
            if not c:
                continue
            last = c.split("::")[-1]
            if (c.startswith("bytes::Buf") and (last.endswith("_le") or last.endswith("_ne"))) or last in ("from_le_bytes", "from_ne_bytes", "to_le_bytes", "to_ne_bytes", "swap_bytes", "to_le", "from_le"):
                run.ob(rule, "%s: big-endian only" % path, False, "call of %s" % c, site(body, x), key="%s|%s|%s" % (rule, path, c))
            elif last == "from_be_bytes" or (c.startswith("bytes::Buf") and last[:4] in ("put_", "get_")):
                n += 1
    run.ob(rule, "no little-/native-endian codec call in the crate", True, "%d big-endian codec calls" % n)
    return n


def r_frame(run, F, rule="R-FRAME"):
    nb = F.body("ipp::IppHeader::new")
    if nb is None:
        run.anchor_lost(rule, "ipp::IppHeader::new")
    else:
        for p in paths_of(nb):
            r = p.ret
            ok = r[0] == "ctor" and isinstance(r[2], dict) and all(r[2].get(f) == ("var", f) for f in ("version", "operation_or_status", "request_id"))
            run.ob(rule, "IppHeader::new stores version, operation-or-status and request-id as given", ok, "constructor builds %s" % tshow(r)[:160], site(nb),
                   key="%s|header-new" % rule)
    hb = F.body("ipp::IppHeader::to_bytes")
    if hb is None:
        run.anchor_lost(rule, "ipp::IppHeader::to_bytes")
    else:
        for p in paths_of(hb):
            evs = events_of_trace(p.trace)
            got = [(e.width, tshow(e.value)) for e in evs if e.tag == "put"]
            want = [(2, "self.version.0"), (2, "self.operation_or_status"), (4, "self.request_id")]
            run.ob(rule, "header = u16 version, u16 operation-or-status, u32 request-id", got == want, str(got), site(hb), key="%s|header-enc" % rule)
    from .readerrules import READERS, reader_types
    for rty in reader_types(F):
        rb = F.body(rty + "::<R>::read_header")
        if rb is None:
            run.anchor_lost(rule, rty + "::read_header")
            continue
        for p in paths_of(rb):
            if p.kind == "try" or (p.ret[0] == "ctor" and p.ret[1].endswith("::Err")):
                continue            # a failed read handed on (`?`, or `Err(e) => return Err(e)` written out)
            reads = [t[1].split("::")[-1] for t in p.trace if is_call(t) and t[1].startswith(rty) and "::read_" in t[1]]
            r = p.ret
            hv = r[2][0] if (r[0] == "ctor" and r[1].endswith("::Ok") and r[2]) else None
            if isinstance(hv, tuple) and hv[0] == "ctor" and hv[1] == "ipp::IppHeader" and isinstance(hv[2], dict) and set(hv[2]) == {"version", "operation_or_status", "request_id"}:
                # the struct literal is what IppHeader::new builds (checked above: new stores its three arguments as given)
                hv = ("call", "ipp::IppHeader::new", [hv[2]["version"], hv[2]["operation_or_status"], hv[2]["request_id"]], None)
            ok = reads == ["read_u16", "read_u16", "read_u32"] and is_call(hv, "ipp::IppHeader::new")
            if ok:
                calls = [t for t in p.trace if is_call(t) and t[1].startswith(rty) and "::read_" in t[1]]

                def src(x):
                    while isinstance(x, tuple) and (x[0] in ("ok?", "await") or (x[0] == "proj" and str(x[2]) == "Ok.0")):
                        x = x[1]
                    return x
                a0 = hv[2][0]
                v_ok = a0[0] == "ctor" and a0[1] == "ipp::model::IppVersion" and same(src(a0[2][0]), calls[0]) and src(a0[2][0])[3] is calls[0][3]
                ok = v_ok and src(hv[2][1])[3] is calls[1][3] and src(hv[2][2])[3] is calls[2][3]
            run.ob(rule, "%s::read_header reads u16,u16,u32 into (version, operation-or-status, request-id)" % rty.split("::")[-1], ok,
                   "reads %s -> %s" % (reads, tshow(hv)[:160]), site(rb), key="%s|%s|header-dec" % (rule, rty))
        rs = F.body("%s::<R>::read_string" % rty)
        rv = F.body("%s::<R>::read_value" % rty)
        for name in ("read_name", "read_value"):
            b = F.body("%s::<R>::%s" % (rty, name))
            if b is None:
                run.anchor_lost(rule, "%s::%s" % (rty, name))
                continue
            # the private text helper read_string is judged inlined (it may or may not exist as a function of its own)
            sib = {}
            if rs is not None:
                sib[rty + "::<R>::read_string"] = rs
            if rv is not None and name == "read_name":
                sib[rty + "::<R>::read_value"] = rv           # read_name written on top of read_value (the same two reads) is judged with it inlined
            for p in paths_of(b, inline=sib or None):
                if p.kind == "try" or (p.ret[0] == "ctor" and p.ret[1].endswith("::Err")):
                    continue
                reads = [t[1].split("::")[-1] for t in p.trace if is_call(t) and t[1].startswith(rty)]
                run.ob(rule, "%s::%s = u16 length then that many bytes" % (rty.split("::")[-1], name), reads == ["read_u16", "read_bytes"], str(reads), site(b),
                       key="%s|%s|%s" % (rule, rty, name))
    ab = F.body("ipp::attribute::IppAttribute::to_bytes")
    if ab is None:
        run.anchor_lost(rule, "ipp::attribute::IppAttribute::to_bytes")
    else:
        for p in paths_of(ab):
            evs = [e for e in events_of_trace(p.trace) if e.tag == "put"]
            val = ("field", SELF, "value")
            nm = ("field", SELF, "name")

            def unbytes(x):
                while is_call(x) and x[1] in BYTES_CALLS:       # name.as_bytes() and name denote the same octets
                    x = x[2][0]
                return x
            ok = len(evs) == 4 and evs[0].kind == "u8" and is_call(evs[0].value, TO_TAG) and evs[0].value[2][0] == val and \
                evs[1].width == 2 and is_call(strip_cast(evs[1].value)[0]) and strip_cast(evs[1].value)[0][1] in LEN_CALLS and unbytes(strip_cast(evs[1].value)[0][2][0]) == nm and \
                evs[2].kind == "slice" and unbytes(evs[2].value) == nm and \
                evs[3].kind in ("buf", "slice") and is_call(unbytes(evs[3].value), TO_BYTES) and unbytes(evs[3].value)[2][0] == val
            run.ob(rule, "attribute = value tag, name length, name, value (length + body)", ok, [repr(e)[:60] for e in evs], site(ab), key="%s|attribute-enc" % rule)
    from .readerrules import PARSERS, async_on
    for pty in PARSERS:
        if pty.endswith("AsyncIppParser") and not async_on(F):
            continue
        from .readerrules import value_step
        vs_ = value_step(F, pty, pty.replace("parser::", "reader::").replace("Parser", "Reader") + "::<R>::")
        if vs_ is None:
            run.anchor_lost(rule, pty + "::parse_value")
            continue
        b, steps, is_tag = vs_
        for p in steps:
            if p.kind == "try" or not any(is_call(t, "ipp::parser::ParserState::parse_value") for t in p.trace):
                continue
            reads = [t for t in p.trace if is_call(t) and "::read_" in t[1]]
            st = [t for t in p.trace if is_call(t, "ipp::parser::ParserState::parse_value")]

            def src(x):
                while isinstance(x, tuple) and x[0] in ("ok?", "await"):
                    x = x[1]
                return x
            ok = [t[1].split("::")[-1] for t in reads] == ["read_name", "read_value"] and len(st) == 1 and is_tag(st[0][2][1]) and \
                src(st[0][2][2])[3] is reads[0][3] and src(st[0][2][3])[3] is reads[1][3]
            run.ob(rule, "%s::parse_value reads name then value and hands (tag, name, value) to the state machine" % pty.split("::")[-1], ok,
                   [tshow(t)[:60] for t in reads + st], site(b), key="%s|%s|attribute-dec" % (rule, pty))


def r_mapkey(run, F, rule="R-MAPKEY"):
    """Every insert into a HashMap<String, IppAttribute> is keyed by the attribute's own name."""
    n = 0
    for path, body in F.hir.items():
        if "::tests::" in path or body["kind"] not in ("Fn", "AssocFn"):
            continue
        # who-may-mutate: an attribute map is only ever changed by insert (replace by name); entry / or_insert* / try_insert keep the *first* value
        for x in walk(body["body"]):
            if x.get("k") == "mcall" and is_map_call(x.get("callee") or "") and "IppAttribute" in str(unwrap(x["recv"]).get("ty") or "") + str((x.get("gargs") or "")):
                nm = x["name"]
                if nm in ("entry", "try_insert", "get_or_insert_with", "raw_entry_mut", "retain", "remove", "remove_entry", "clear", "drain", "extract_if", "append", "extend"):
                    run.ob(rule, "%s: attribute maps are changed by insert only" % path.split("::", 2)[-1], False,
                           "%s on an attribute map: %s (entry/or_insert keep the first attribute of a name where insert keeps the last; remove/retain drop attributes)" % (nm, show(x)[:100]),
                           site(body, x), key="%s|%s|mutation|%s" % (rule, path, nm))
        hits = [x for x in walk(body["body"]) if x.get("k") == "mcall" and is_map_call(x.get("callee") or "", "insert") and
                "ipp::attribute::IppAttribute" in ((x.get("gargs") or ["", ""])[1:2] or [""])[0]]
        if not hits:
            continue
        for p in paths_of(body):
            for t, _ in all_calls(p):
                if is_call(t) and is_map_call(t[1], "insert") and len(t) > 3 and any(t[3] is h for h in hits):
                    n += 1
                    key, val = display_norm(t[2][1]), t[2][2]
                    ok = False
                    if is_call(key, "ipp::attribute::IppAttribute::name") and same(key[2][0], val):
                        ok = True
                    if isinstance(key, tuple) and key[0] == "field" and key[2] == "name" and same(key[1], val):
                        ok = True       # `attribute.name` is what name() returns
                    if is_call(val, "ipp::attribute::IppAttribute::new") and same(display_norm(val[2][0]), key):
                        ok = True
                    run.ob(rule, "%s: map key = the attribute's name" % path.split("::", 2)[-1], ok, "insert(%s, %s)" % (tshow(t[2][1])[:60], tshow(val)[:80]),
                           site(body, t[3]), key="%s|%s|key" % (rule, path))
    return n
