"""Utilities over symx terms."""
from .facts import callee, walk

# calls that return "the same text" as their receiver when displayed
DISPLAY_EQUIV = {
    "std::string::ToString::to_string", "std::string::String::as_str", "std::borrow::ToOwned::to_owned",
    "std::clone::Clone::clone", "std::convert::AsRef::as_ref", "std::ops::Deref::deref", "std::convert::Into::into",
    "std::convert::From::from", "std::string::String::from", "http::uri::Authority::as_str", "http::uri::PathAndQuery::as_str",
    "core::str::<impl str>::to_string", "core::str::<impl str>::to_owned", "alloc::str::<impl str>::to_owned",
    "alloc::str::<impl str>::to_string", "std::string::String::as_ref", "std::borrow::Borrow::borrow",
}


def is_call(t, *names):
    return isinstance(t, tuple) and t[0] == "call" and (not names or t[1] in names)


def display_norm(t):
    """Strip wrappers that do not change the displayed text of a value."""
    while True:
        if isinstance(t, tuple) and t[0] == "call" and t[1] in DISPLAY_EQUIV and len(t[2]) >= 1:
            t = t[2][0]
        elif isinstance(t, tuple) and t[0] in ("ok?", "await"):
            t = t[1]
        else:
            return t


def flatten_fmt(t):
    """Normal form of a string-valued term: list of ('s', text) and ('a', atom)."""
    t = display_norm(t)
    out = []
    if isinstance(t, tuple) and t[0] == "fmt":
        for p in t[1]:
            if p[0] == "s":
                out.append(("s", p[1]))
            else:
                if p[2] not in ("", None):
                    out.append(("a", ("spec", p[2], p[1])))
                else:
                    out.extend(flatten_fmt(p[1]))
    elif isinstance(t, tuple) and t[0] == "lit" and isinstance(t[1], (str, int)) and not isinstance(t[1], bool):
        out.append(("s", str(t[1])))
    else:
        out.append(("a", t))
    # merge adjacent text
    merged = []
    for p in out:
        if p[0] == "s" and merged and merged[-1][0] == "s":
            merged[-1] = ("s", merged[-1][1] + p[1])
        else:
            merged.append(p)
    return merged


def subterms(t):
    """All sub-terms of a term (pre-order), descending into closure bodies is NOT done here."""
    stack = [t]
    seen = set()
    while stack:
        x = stack.pop()
        if not isinstance(x, tuple):
            continue
        if id(x) in seen:
            continue  # shared sub-objects (phi terms repeat their 'before' value) are visited once
        seen.add(id(x))
        yield x
        k = x[0]
        if k == "call":
            stack.extend(reversed(x[2]))
        elif k == "ctor":
            vals = x[2].values() if isinstance(x[2], dict) else x[2]
            stack.extend(reversed(list(vals)))
        elif k in ("tuple", "array"):
            stack.extend(reversed(x[1]))
        elif k in ("field", "proj", "elem", "ok?", "err?", "await"):
            stack.append(x[1])
        elif k == "index":
            stack.extend([x[2], x[1]])
        elif k == "bin":
            stack.extend([x[3], x[2]])
        elif k in ("un", "cast"):
            stack.append(x[2])
        elif k == "fmt":
            for p in x[1]:
                if p[0] == "a":
                    stack.append(p[1])
        elif k == "spec":
            stack.append(x[2])
        elif k == "phi":
            stack.extend(reversed([x[1]] + list(x[2])))


def term_callees(t):
    """Every callee mentioned in a term, including calls inside closure bodies it contains."""
    out = []
    for x in subterms(t):
        if x[0] == "call":
            out.append(x[1])
        elif x[0] == "closure":
            for n in walk(x[1]["body"]):
                c = callee(n)
                if c:
                    out.append(c)
    return out


def same(a, b):
    """Structural equality of terms ignoring HIR node payloads."""
    if isinstance(a, tuple) and isinstance(b, tuple):
        if a[0] != b[0]:
            return False
        if a[0] == "call":
            return a[1] == b[1] and len(a[2]) == len(b[2]) and all(same(x, y) for x, y in zip(a[2], b[2]))
        if a[0] == "closure":
            return a[1] is b[1]
        if a[0] == "phi":
            return a[3] == b[3] and same(a[1], b[1])
        if len(a) != len(b):
            return False
        return all(same(x, y) for x, y in zip(a[1:], b[1:]))
    if isinstance(a, list) and isinstance(b, list):
        return len(a) == len(b) and all(same(x, y) for x, y in zip(a, b))
    if isinstance(a, dict) and isinstance(b, dict):
        return a.keys() == b.keys() and all(same(a[k], b[k]) for k in a)
    return a == b


def pat_some_lit(pat):
    """If pattern is Some(<literal>) return the literal, else None."""
    while pat and pat.get("k") in ("pref", "pderef"):
        pat = pat["p"]
    if pat and pat.get("k") == "ptuplestruct" and (pat.get("path") or "").endswith("::Some") and len(pat["pats"]) == 1:
        q = pat["pats"][0]
        if q.get("k") == "pexpr" and q["e"].get("k") == "lit":
            return q["e"]["v"]
    return None


def pat_is_some(pat):
    while pat and pat.get("k") in ("pref", "pderef"):
        pat = pat["p"]
    return bool(pat and pat.get("k") == "ptuplestruct" and (pat.get("path") or "").endswith("::Some"))


def pat_is_none(pat):
    while pat and pat.get("k") in ("pref", "pderef"):
        pat = pat["p"]
    return bool(pat and pat.get("k") == "pexpr" and (pat.get("path") or "").endswith("::None"))


def pat_is_catchall(pat):
    return bool(pat and pat.get("k") in ("wild", "bind"))


def mentions(t):
    """Everything a term refers to, including inside the HIR bodies of closures it contains:
    {'callees': set, 'defs': set (named consts/statics/fns used as values), 'ctors': set, 'nodes': [call HIR nodes]}"""
    out = {"callees": set(), "defs": set(), "ctors": set(), "nodes": []}
    for x in subterms(t):
        k = x[0]
        if k == "call":
            out["callees"].add(x[1])
            if len(x) > 3 and isinstance(x[3], dict):
                out["nodes"].append(x[3])
        elif k == "def":
            out["defs"].add(x[1])
        elif k == "ctor":
            out["ctors"].add(x[1])
        elif k == "closure":
            env = x[2] if len(x) > 2 and isinstance(x[2], dict) else {}
            for n in walk(x[1]["body"]):
                c = callee(n)
                if c:
                    out["callees"].add(c)
                    out["nodes"].append(n)
                if n.get("k") == "path":
                    r = n["res"]
                    if n.get("ctor"):
                        out["ctors"].add(n["ctor"])
                    elif r.get("r") == "def":
                        out["defs"].add(r["path"])
                    elif r.get("r") == "local" and r.get("id") in env and isinstance(env[r["id"]], tuple) and env[r["id"]][0] != "closure":
                        # a captured variable stands for the term it had when the closure was made (e.g. a helper's parameter bound to a constant)
                        sub = mentions(env[r["id"]])
                        out["callees"] |= sub["callees"]
                        out["defs"] |= sub["defs"]
                        out["ctors"] |= sub["ctors"]
                if n.get("k") == "call" and n.get("ctor"):
                    out["ctors"].add(n["ctor"])
                if n.get("k") in ("pexpr", "ptuplestruct", "pstruct") and n.get("path"):
                    out["ctors"].add(n["path"])
    return out


MAP_PREFIXES = ("std::collections::HashMap::<K, V, S, A>::", "std::collections::HashMap::<K, V, S>::", "std::collections::BTreeMap::<K, V, A>::", "std::collections::BTreeMap::<K, V>::")


def is_map_call(name, *methods):
    """`name` is a std HashMap / BTreeMap method (optionally one of `methods`): the keyed-map types whose insert replaces by key."""
    if not isinstance(name, str) or not name.startswith(MAP_PREFIXES):
        return False
    return not methods or name.split("::")[-1] in methods


def pat_variants(pat):
    """All variant paths named inside a pattern."""
    out = set()
    for n in walk(pat):
        if n.get("path"):
            out.add(n["path"])
    if isinstance(pat, dict) and pat.get("path"):
        out.add(pat["path"])
    return out


def node_resolved(node):
    """Resolved impl fn of a call/mcall HIR node, if the compiler could resolve it."""
    if not isinstance(node, dict):
        return None
    if node.get("k") == "mcall":
        return node.get("resolved")
    if node.get("k") == "call" and isinstance(node.get("f"), dict):
        return node["f"].get("res", {}).get("resolved")
    return None


def node_self_args(node):
    if not isinstance(node, dict):
        return []
    if node.get("k") == "mcall":
        return node.get("gargs", [])
    if node.get("k") == "call" and isinstance(node.get("f"), dict):
        return node["f"].get("res", {}).get("args", [])
    return []


def opt_polarity(c):
    """For a ('match', term, pattern-text, index-or-bool, pattern-node, ..) condition on an Option/Result:
    True = the Some/Ok side, False = the None/Err side (or the negated Some pattern), None = cannot tell."""
    if c[0] != "match":
        return None
    txt = c[2]
    neg = txt.startswith("!") or c[3] is False
    body = txt.lstrip("!")
    someish = ("Some(" in body or "Some{" in body or body.endswith("Some") or "::Ok(" in body or "Ok{" in body)
    noneish = (body.endswith("None") or body.endswith("None{}") or "::Err(" in body or body.strip() == "_")
    if someish:
        return not neg
    if noneish:
        return neg if not body.strip() == "_" else False
    return None
