"""Indexed view of one fact file + HIR tree helpers."""


class Facts:
    def __init__(self, d):
        self.d = d
        self.crate = d["crate"]
        self.cfg = d["cfg"]
        self.features = set(d["features"])
        self.hir = {}
        for b in d["hir"]:
            self.hir.setdefault(b["def"], b)
        self.mir = {}
        for b in d["mir"]:
            self.mir.setdefault(b["def"], b)
        self.mir_elab = {b["def"]: b for b in d["mir_elab"]}
        from . import symx as _symx
        for b in self.hir.values():
            _symx.WORLD[id(b)] = self.hir
        t = d["types"]
        self.adts = {a["path"]: a for a in t["adts"]}
        self.consts = {c["path"]: c for c in t["consts"]}
        self.impls = t["impls"]
        self.fns = {f["path"]: f for f in t["fns"]}

    def body(self, path):
        return self.hir.get(path)

    def bodies_matching(self, pred):
        return [b for p, b in self.hir.items() if pred(p)]

    def const_value(self, path):
        c = self.consts.get(path)
        return None if c is None else c.get("value")

    def impls_of(self, adt_path, trait=None):
        return [i for i in self.impls if i.get("self_adt") == adt_path and (trait is None or i.get("trait") == trait)]

    def impl_items(self, self_adt, trait):
        """Names of the items defined by `impl <trait> for <self_adt>` (None if there is no such impl)."""
        for i in self.impls:
            if i.get("self_adt") == self_adt and i.get("trait") == trait:
                return sorted(x["name"] for x in i.get("items", []))
        return None

    def non_test(self, body):
        return "::tests::" not in body["def"]


def site(body, node=None):
    ln = None
    if isinstance(node, dict):
        ln = node.get("ln")
    if ln is None:
        ln = body.get("line")
    return "%s:%s (%s)" % (body.get("file"), ln, body.get("def"))


CHILD_KEYS = ("f", "args", "recv", "e", "es", "a", "b", "c", "t", "init", "els", "scrut", "arms", "body", "stmts",
              "expr", "l", "r", "i", "fields", "base", "guard", "pat", "params", "g", "p", "pats", "sub")


def children(n):
    """Direct child expression/pattern/stmt nodes of a node (dicts with key 'k'), in evaluation order
    as far as the serialisation order reflects it."""
    out = []
    if not isinstance(n, dict):
        return out
    for k, v in n.items():
        if k in ("adj", "res", "macros"):
            continue
        if isinstance(v, dict):
            if "k" in v:
                out.append(v)
            elif k in ("pat",):
                out.append(v)
        elif isinstance(v, list):
            for x in v:
                if isinstance(x, dict):
                    if "k" in x:
                        out.append(x)
                    else:
                        # arms {pat,guard,body} and fields {name,e}/{name,p}
                        for kk in ("pat", "guard", "body", "e", "p"):
                            if isinstance(x.get(kk), dict):
                                out.append(x[kk])
    return out


def walk(n):
    """Pre-order walk over all nodes below (and including) n."""
    stack = [n]
    while stack:
        x = stack.pop()
        if isinstance(x, dict) and "k" in x:
            yield x
        ch = children(x)
        stack.extend(reversed(ch))


def is_expr(n):
    return isinstance(n, dict) and "k" in n and not n["k"].startswith("p") or n.get("k") == "path"


def unwrap(n):
    """Strip transparent wrappers: blocks with no statements, `use`, type ascription."""
    while isinstance(n, dict):
        k = n.get("k")
        if k == "blockx" and not n["b"]["stmts"] and "expr" in n["b"]:
            n = n["b"]["expr"]
        elif k == "block" and not n["stmts"] and "expr" in n:
            n = n["expr"]
        elif k in ("use", "ascribe"):
            n = n["e"]
        else:
            break
    return n


def callee(n):
    """Resolved callee path of a call / method-call node (the impl fn when resolvable)."""
    if not isinstance(n, dict):
        return None
    if n.get("k") == "mcall":
        return n.get("callee")
    if n.get("k") == "call":
        return n.get("callee")
    return None


def calls(n, pred=None):
    for x in walk(n):
        if x["k"] in ("call", "mcall"):
            c = callee(x)
            if pred is None or (c is not None and pred(c)):
                yield x


def local_of(n):
    """If node is (a reference/deref chain of) a path to a local, return (id, name)."""
    n = unwrap(n)
    while isinstance(n, dict) and n.get("k") in ("ref", "un") and (n["k"] == "ref" or n.get("op") == "Deref"):
        n = unwrap(n["e"])
    if isinstance(n, dict) and n.get("k") == "path" and n["res"].get("r") == "local":
        return (n["res"]["id"], n["res"]["name"])
    return None


def def_of(n):
    n = unwrap(n)
    if isinstance(n, dict) and n.get("k") == "path" and n["res"].get("r") == "def":
        return n["res"]["path"]
    return None


def lit_of(n):
    n = unwrap(n)
    if isinstance(n, dict) and n.get("k") == "lit":
        return n["v"]
    return None


def show(n, depth=0):
    """Compact source-like rendering of a HIR node (for reports and samples)."""
    if depth > 12:
        return "…"
    if n is None:
        return ""
    if isinstance(n, list):
        return ", ".join(show(x, depth + 1) for x in n)
    if not isinstance(n, dict):
        return repr(n)
    k = n.get("k")
    s = lambda x: show(x, depth + 1)
    if k == "lit":
        return repr(n["v"]) if not isinstance(n["v"], dict) else str(n["v"])
    if k == "path":
        r = n["res"]
        if r.get("r") == "local":
            return r["name"]
        return r.get("path", r.get("dbg", "?")).split("::", 1)[-1] if r.get("r") == "def" else r.get("path", "?")
    if k == "call":
        return "%s(%s)" % (n.get("ctor") or n.get("callee") or s(n["f"]), s(n["args"]))
    if k == "mcall":
        return "%s.%s(%s)" % (s(n["recv"]), n["name"], s(n["args"]))
    if k == "field":
        return "%s.%s" % (s(n["e"]), n["name"])
    if k == "ref":
        return "&%s%s" % ("mut " if n.get("mut") else "", s(n["e"]))
    if k == "un":
        return {"Deref": "*", "Not": "!", "Neg": "-"}.get(n["op"], n["op"]) + s(n["e"])
    if k == "bin":
        return "(%s %s %s)" % (s(n["a"]), n["op"], s(n["b"]))
    if k == "cast":
        return "(%s as %s)" % (s(n["e"]), n.get("ty"))
    if k == "struct":
        return "%s{%s}" % (n.get("path"), ", ".join("%s: %s" % (f["name"], s(f["e"])) for f in n["fields"]))
    if k in ("tup", "array"):
        return "(%s)" % s(n["es"])
    if k == "blockx":
        return s(n["b"])
    if k == "block":
        inner = "; ".join(s(x) for x in n["stmts"])
        if "expr" in n:
            inner = (inner + "; " if inner else "") + s(n["expr"])
        return "{%s}" % inner
    if k in ("semi", "expr", "use", "ascribe"):
        return s(n["e"])
    if k == "let":
        return "let %s = %s" % (s(n["pat"]), s(n.get("init")))
    if k == "letx":
        return "let %s = %s" % (s(n["pat"]), s(n["init"]))
    if k == "if":
        return "if %s %s%s" % (s(n["c"]), s(n["t"]), (" else " + s(n["e"])) if "e" in n else "")
    if k == "match":
        arms = "; ".join("%s%s => %s" % (s(a["pat"]), (" if " + s(a["guard"])) if "guard" in a else "", s(a["body"])) for a in n["arms"])
        return "match[%s] %s {%s}" % (n["src"], s(n["scrut"]), arms)
    if k == "loop":
        return "loop[%s] %s" % (n["src"], s(n["body"]))
    if k == "closure":
        return "|%s| %s" % (s(n["params"]), s(n["body"]))
    if k == "ret":
        return "return %s" % s(n.get("e"))
    if k == "break":
        return "break %s" % s(n.get("e"))
    if k == "continue":
        return "continue"
    if k == "assign":
        return "%s = %s" % (s(n["l"]), s(n["r"]))
    if k == "assignop":
        return "%s %s= %s" % (s(n["l"]), n["op"], s(n["r"]))
    if k == "index":
        return "%s[%s]" % (s(n["b"]), s(n["i"]))
    if k == "yield":
        return "yield(%s)" % s(n["e"])
    if k == "bind":
        return n["name"] + (("@" + s(n["sub"])) if "sub" in n else "")
    if k == "wild":
        return "_"
    if k == "ptuplestruct":
        return "%s(%s)" % (n.get("path"), s(n["pats"]))
    if k == "pstruct":
        return "%s{%s}" % (n.get("path"), ", ".join("%s: %s" % (f["name"], s(f["p"])) for f in n["fields"]))
    if k == "ptuple":
        return "(%s)" % s(n["pats"])
    if k == "por":
        return " | ".join(s(x) for x in n["pats"])
    if k == "pexpr":
        return n.get("path") or s(n["e"])
    if k == "pref" or k == "pderef":
        return "&" + s(n["p"])
    if k == "prange":
        return "%s..%s%s" % (s(n.get("lo")), "=" if "Included" in n.get("end", "") else "", s(n.get("hi")))
    if k == "item":
        return "item"
    return "<%s>" % k
