import argparse
import importlib
import json
import os
import sys
import traceback

from . import extract
from .engine import Run
from .facts import Facts

# property -> (module, level, quick cfgs, thorough cfgs)
PROPS = {
    "C01": ("c01", "other", "AB", "ABCD"),
    "C02": ("c02", "other", "AB", "ABCD"),
    "C03": ("c03", "other", "AB", "ABCD"),
    "C04": ("c04", "other", "AB", "ABCD"),
    "C05": ("c05", "translation_validation", "AB", "ABD"),
    "C06": ("c06", "other", "AB", "ABCD"),
    "C07": ("c07", "other", "AB", "ABCD"),
    "C08": ("c08", "other", "AB", "ABCD"),
    "C09": ("c09", "other", "AB", "ABCD"),
    "C10": ("c10", "other", "AB", "ABCD"),
    "C11": ("c11", "other", "AB", "ABD"),
    "C12": ("c12", "other", "ABD", "ABCD"),
    "C13": ("c13", "other", "AB", "ABCD"),
    "C14": ("c14", "other", "AB", "ABCD"),
    "C15": ("c15", "other", "AB", "ABCD"),
    "C16": ("c16", "proof", "AB", "ABCD"),
    "C17": ("c17", "other", "AB", "ABCD"),
    "C18": ("c18", "other", "AB", "ABCD"),
    "C19": ("c19", "other", "AB", "ABCD"),
    "C20": ("c20", "other", "B", "AB"),
}


def anchor_files(pid):
    with open(os.path.join(os.path.dirname(os.path.dirname(os.path.abspath(__file__))), "properties.jsonl")) as f:
        for line in f:
            p = json.loads(line)
            if p["id"] == pid:
                return p.get("anchors", {}).get("files", [])
    return []


def run_property(pid, tier, allfacts, meta, seed=0):
    modname, level, _, _ = PROPS[pid]
    mod = importlib.import_module("ipprules.props." + modname)
    run = Run(pid, tier, level, seed)
    run.meta = {"configs": meta.get("configs", {})}
    views = {cfg: {crate: Facts(d) for crate, d in crates.items()} for cfg, crates in allfacts.items()}
    try:
        mod.check(run, views, tier)
        from . import selfcheck
        selfcheck.run_selfchecks(run, pid, views)
        from . import cfgcover
        cfgcover.r_cfgcover(run, pid, views, anchor_files(pid))
    except Exception as e:  # fail closed: an engine crash is never a pass
        traceback.print_exc()
        run.cfg = None
        run.violate("ENGINE", "ENGINE|crash|%s" % type(e).__name__, "rule engine crashed: %r" % (e,), None)
    return run.finish()


def main(argv):
    ap = argparse.ArgumentParser()
    ap.add_argument("pid")
    ap.add_argument("--tier", default=os.environ.get("VERIF_TIER", "quick"), choices=["quick", "thorough"])
    ap.add_argument("--replay")
    ap.add_argument("--keep-facts", action="store_true")
    args = ap.parse_args(argv)
    seed = int(os.environ.get("VERIF_SEED", "0") or 0)
    pids = list(PROPS) if args.pid == "all" else args.pid.split(",")
    for p in pids:
        if p not in PROPS:
            print("unknown property", p)
            return 2
    cfgs = set()
    for p in pids:
        cfgs |= set(PROPS[p][2] if args.tier == "quick" else PROPS[p][3])
    if args.replay:
        with open(args.replay) as f:
            v = json.load(f)
        print("replaying rule %s (key %s) against the current tree" % (v.get("rule"), v.get("key")))
    try:
        allfacts, meta = extract.extract(sorted(cfgs), keep=args.keep_facts)
    except extract.ExtractError as e:
        print("ERROR: fact extraction failed; no verdict.\n%s" % e)
        return 2
    rc = 0
    for p in pids:
        want = PROPS[p][2] if args.tier == "quick" else PROPS[p][3]
        sub = {c: allfacts[c] for c in want}
        m = {"configs": {c: meta["configs"][c] for c in want}}
        r = run_property(p, args.tier, sub, m, seed)
        rc = max(rc, r)
    return rc
