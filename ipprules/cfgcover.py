"""R-CFGCOVER: every cfg-gated region of the files a property is anchored in is compiled - and therefore analysed - in at
least one of the configurations of this run; for predicates whose *false* side also selects code (`not(..)`, `cfg!(..)`
expressions, `cfg_attr`) both sides are.

The compiler strips cfg-disabled code before name resolution, so facts about it do not exist: a rule cannot report what it
never saw. This check makes that blind spot explicit (fail closed) instead of silently passing. It reads the predicates
from the source text - there is no resolved form of a disabled region - and evaluates them over each configuration's
resolved feature set (taken from the compiler's own --cfg arguments, recorded in the facts)."""
import os
import re

from .extract import REPO

TOKEN = re.compile(r'\s*(any|all|not|feature|test|debug_assertions|[A-Za-z_][A-Za-z0-9_]*|\(|\)|,|=|"[^"]*")')


def parse(s):
    toks = TOKEN.findall(s)
    pos = [0]

    def peek():
        return toks[pos[0]] if pos[0] < len(toks) else None

    def eat(t=None):
        x = peek()
        if t is not None and x != t:
            raise ValueError("expected %r at %d in %r" % (t, pos[0], s))
        pos[0] += 1
        return x

    def pred():
        t = eat()
        if t in ("any", "all", "not"):
            eat("(")
            args = []
            while peek() != ")":
                args.append(pred())
                if peek() == ",":
                    eat(",")
            eat(")")
            return (t, args)
        if peek() == "=":
            eat("=")
            v = eat()
            return ("kv", t, v.strip('"'))
        return ("flag", t)
    p = pred()
    return p


def ev(p, feats, test=False):
    k = p[0]
    if k == "any":
        return any(ev(x, feats, test) for x in p[1])
    if k == "all":
        return all(ev(x, feats, test) for x in p[1])
    if k == "not":
        return not ev(p[1][0], feats, test)
    if k == "kv":
        return p[1] == "feature" and p[2] in feats
    if k == "flag":
        return {"test": test, "debug_assertions": True}.get(p[1], False)
    return False


def has_negative_side(p):
    return p[0] == "not" or (p[0] in ("any", "all") and any(has_negative_side(x) for x in p[1]))


def balanced(text, i):
    """text[i] is '(' - return the index after its matching ')'."""
    depth = 0
    for j in range(i, len(text)):
        if text[j] == "(":
            depth += 1
        elif text[j] == ")":
            depth -= 1
            if depth == 0:
                return j + 1
    return len(text)


def predicates(path):
    with open(path, errors="replace") as f:
        text = f.read()
    out = []
    for m in re.finditer(r"(#\s*!?\[\s*cfg_attr\s*\(|#\s*!?\[\s*cfg\s*\(|\bcfg!\s*\()", text):
        kind = "cfg_attr" if "cfg_attr" in m.group(1) else ("cfg!" if "cfg!" in m.group(1) else "cfg")
        start = m.end() - 1
        end = balanced(text, start)
        inner = text[start + 1:end - 1]
        if kind == "cfg_attr":
            # first top-level argument is the predicate
            depth = 0
            for j, ch in enumerate(inner):
                if ch == "(":
                    depth += 1
                elif ch == ")":
                    depth -= 1
                elif ch == "," and depth == 0:
                    inner = inner[:j]
                    break
        line = text.count("\n", 0, m.start()) + 1
        out.append((kind, " ".join(inner.split()), line))
    return out


def r_cfgcover(run, pid, views, files, rule="R-CFGCOVER"):
    feats = {}
    for cfg, crates in views.items():
        for crate, F in crates.items():
            feats[(cfg, crate)] = set(F.features)
    saved = run.cfg
    run.cfg = None
    n = 0
    seen = set()
    for rel in files:
        if not rel.endswith(".rs"):
            continue
        path = os.path.join(REPO, rel)
        if not os.path.exists(path):
            continue
        crate = "ipputil" if rel.startswith("util/") else "ipp"
        cfgs = sorted(c for (c, k) in feats if k == crate)
        for kind, text, line in predicates(path):
            if (rel, kind, text) in seen:
                continue
            seen.add((rel, kind, text))
            try:
                p = parse(text)
            except Exception:
                run.ob(rule, "%s: predicate %s readable" % (rel, text), False, "cannot parse cfg predicate", "%s:%d" % (rel, line), key="%s|%s|%s|unreadable" % (rule, rel, text))
                continue
            if p == ("flag", "test") or (p[0] == "all" and ("flag", "test") in p[1]):
                continue        # unit-test code is not part of the library
            if "feature" not in text:
                continue        # test / debug_assertions / platform predicates do not vary between the analysed feature configurations
            vals = {c: ev(p, feats[(c, crate)]) for c in cfgs}
            n += 1
            on = [c for c, v in vals.items() if v]
            off = [c for c, v in vals.items() if not v]
            run.ob(rule, "%s: code under %s(%s) is compiled in an analysed configuration" % (rel, kind, text), bool(on) or kind == "cfg!",
                   "no analysed configuration (%s) enables it: the code it gates is invisible to every rule of this run" % ",".join(cfgs), "%s:%d" % (rel, line),
                   key="%s|%s|%s|never-on" % (rule, rel, text))
            if kind in ("cfg!",) or has_negative_side(p):
                run.ob(rule, "%s: both sides of %s(%s) are analysed" % (rel, kind, text), bool(on) and bool(off),
                       "it is %s under every analysed configuration (%s): the code on the other side is selected in builds no rule of this run looked at "
                       "(the thorough tier adds the no-default and rustls-only configurations)" % ("true" if on else "false", ",".join(cfgs)), "%s:%d" % (rel, line),
                       key="%s|%s|%s|one-sided" % (rule, rel, text))
    run.cfg = saved
    return n
