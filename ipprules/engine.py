"""Obligation bookkeeping, floors, exceptions, known findings, evidence and exit status."""
import json
import os
import sys
import time

VERIF = os.path.dirname(os.path.dirname(os.path.abspath(__file__)))
EVIDENCE_DIR = os.environ.get("IPP_EVIDENCE_DIR") or os.path.join(VERIF, "evidence")
KNOWN_FINDINGS = os.path.join(VERIF, "known_findings.json")
EXCEPTIONS = os.path.join(VERIF, "tables", "exceptions.json")


def load_json(path, default=None):
    try:
        with open(path) as f:
            return json.load(f)
    except FileNotFoundError:
        return default


class Only:
    """View of a Run that records only the obligations whose key contains one of `needles` (used when one property
    borrows a single clause of another property's rule); floors and anchors pass through."""

    def __init__(self, run, *needles):
        self.__dict__["_run"] = run
        self.__dict__["_needles"] = needles

    def __getattr__(self, k):
        return getattr(self._run, k)

    def __setattr__(self, k, v):
        setattr(self._run, k, v)

    def ob(self, rule, instance, ok, detail=None, site=None, key=None):
        k = key or ("%s|%s" % (rule, instance))
        pos = [n for n in self._needles if not n.startswith("!")]
        neg = [n[1:] for n in self._needles if n.startswith("!")]
        if any(n in k for n in neg):
            return ok               # excluded clause (e.g. another property's own known finding)
        if not pos or any(n in k for n in pos):
            return self._run.ob(rule, instance, ok, detail, site, key)
        return ok

    def anchor_lost(self, rule, what):
        return self._run.anchor_lost(rule, what)

    def floor(self, rule, count, minimum, what=""):
        return True


def include(run, module, views, tier, *needles):
    """Run another property's check inside this run (a clause this property rests on), keeping this property's own
    explanation / trusted base / not-decided list. With `needles`, only the obligations whose key contains one of them."""
    stack = getattr(run, "include_stack", None)
    if stack is None:
        stack = []
        run.include_stack = stack
    name = module.__name__.rsplit(".", 1)[-1]
    if name in stack or name == "c%s" % run.pid[1:]:
        return          # mutual includes (C17 <-> C18) stop here
    stack.append(name)
    saved = (run.explanation, list(run.trusted), list(run.not_decided), run.cfg)
    try:
        module.check(Only(run, *needles) if needles else run, views, tier)
    finally:
        run.explanation, run.trusted, run.not_decided, run.cfg = saved
        stack.pop()


class Run:
    """One check run for one property."""

    def __init__(self, pid, tier, level, seed=0):
        self.pid = pid
        self.tier = tier
        self.level = level
        self.seed = seed
        self.t0 = time.time()
        self.obligations = []      # dicts: rule, cfg, instance, ok, detail, site
        self.violations = []       # dicts: rule, key, msg, site
        self.known_hits = []
        self.notes = []
        self.rule_counts = {}
        self.floors = []
        self.exceptions_used = []
        self.not_decided = []
        self.trusted = []
        self.explanation = ""
        self.meta = {}
        self.cfg = None            # current configuration label
        kf = load_json(KNOWN_FINDINGS, {"findings": []})
        self.known = {f["key"]: f for f in kf.get("findings", []) if f.get("status") == "known" and f.get("property") == pid}
        ex = load_json(EXCEPTIONS, {"exceptions": []})
        self.exceptions = {e["key"]: e for e in ex.get("exceptions", [])}

    # -- recording -----------------------------------------------------------------------
    def ob(self, rule, instance, ok, detail=None, site=None, key=None):
        """Record an obligation (rule instance). A failing one is a violation keyed by `key`
        (default: rule|instance) - never by line number."""
        self.rule_counts[rule] = self.rule_counts.get(rule, 0) + 1
        rec = {"rule": rule, "cfg": self.cfg, "instance": instance, "ok": bool(ok)}
        if detail is not None:
            rec["detail"] = detail
        if site:
            rec["site"] = site
        self.obligations.append(rec)
        if not ok:
            self.violate(rule, key or ("%s|%s" % (rule, instance)), "%s: %s" % (instance, detail), site)
        return ok

    def violate(self, rule, key, msg, site=None):
        full_key = "%s|%s" % (self.pid, key)
        if full_key in self.known:
            hit = self.known[full_key]
            if not any(h["key"] == full_key for h in self.known_hits):
                self.known_hits.append({"key": full_key, "what": hit.get("what", ""), "cfg": self.cfg})
            return
        # the same construct seen under several cfgs is one violation
        for v in self.violations:
            if v["key"] == full_key:
                if self.cfg not in v["cfgs"]:
                    v["cfgs"].append(self.cfg)
                return
        self.violations.append({"rule": rule, "key": full_key, "msg": msg, "site": site, "cfgs": [self.cfg]})

    def excepted(self, key):
        """Reviewed exception lookup: key = rule|function|callee|ordinal. Returns reason or None."""
        e = self.exceptions.get(key)
        if e is not None:
            if not any(x["key"] == key for x in self.exceptions_used):
                self.exceptions_used.append({"key": key, "reason": e.get("reason", "")})
            return e.get("reason", "reviewed")
        return None

    def floor(self, rule, count, minimum, what=""):
        """Fail closed when a rule matched fewer instances than were counted by hand."""
        ok = count >= minimum
        self.floors.append({"rule": rule, "cfg": self.cfg, "count": count, "floor": minimum, "ok": ok, "what": what})
        if not ok:
            self.violate(rule, "%s|below-floor|%s" % (rule, what), "below-floor: %s matched %d instance(s) of %s, expected at least %d "
                         "(anchor lost or construct removed)" % (rule, count, what, minimum), None)
        return ok

    def anchor_lost(self, rule, what):
        self.rule_counts[rule] = self.rule_counts.get(rule, 0) + 1
        self.obligations.append({"rule": rule, "cfg": self.cfg, "instance": "anchor " + what, "ok": False})
        self.violate(rule, "%s|anchor-lost|%s" % (rule, what), "anchor-lost: %s not found" % what, None)

    def note(self, text):
        self.notes.append({"cfg": self.cfg, "note": text})

    # -- finishing -----------------------------------------------------------------------
    def finish(self):
        os.makedirs(EVIDENCE_DIR, exist_ok=True)
        vdir = os.path.join(EVIDENCE_DIR, "violations")
        wall = time.time() - self.t0
        n_ob = len(self.obligations)
        n_ok = sum(1 for o in self.obligations if o["ok"])
        # samples: a few obligations per rule, written out
        samples = []
        seen = {}
        for o in self.obligations:
            c = seen.get(o["rule"], 0)
            if c < 3:
                samples.append(o)
                seen[o["rule"]] = c + 1
        distinct = len({(o["rule"], o["instance"]) for o in self.obligations})
        coverage = {
            "explanation": self.explanation,
            "obligations": n_ob,
            "discharged": n_ok,
            "evaluations": max(n_ob, 1),
            "distinct_nontrivial": distinct,
            "rule": "one obligation per rule instance found in /repo's current source (call site, match arm, "
                    "table row, CFG path class); distinct = distinct (rule, instance) pairs across configurations",
            "samples": samples[:40],
            "checker_cmd": "./check %s --tier %s" % (self.pid, self.tier),
            "trusted_base": self.trusted,
            "rules": self.rule_counts,
            "floors": self.floors,
            "exceptions_used": self.exceptions_used,
            "known_findings_matched": self.known_hits,
            "not_decided": self.not_decided,
            "notes": self.notes[:60],
            "configurations": self.meta.get("configs", {}),
            "violations_detail": self.violations[:50],
            "exhaustive": False,
        }
        coverage.update(self.meta.get("coverage_extra", {}))
        ev = {
            "property_id": self.pid,
            "tier": self.tier,
            "seed": self.seed,
            "level": self.level,
            "coverage": coverage,
            "assumptions": self.trusted + ["not decided: " + x for x in self.not_decided],
            "wall_s": round(wall, 3),
            "violations": len(self.violations),
        }
        with open(os.path.join(EVIDENCE_DIR, self.pid + ".json"), "w") as f:
            json.dump(ev, f, indent=1, sort_keys=False)
        for h in self.known_hits:
            print("KNOWN-FINDING: property=%s %s" % (self.pid, h["what"]))
        if self.violations:
            os.makedirs(vdir, exist_ok=True)
            for i, v in enumerate(self.violations):
                path = os.path.join(vdir, "%s-%d.json" % (self.pid, i))
                with open(path, "w") as f:
                    json.dump(v, f, indent=1)
                site = (" at %s" % v["site"]) if v.get("site") else ""
                print("  [%s] %s%s  (cfg %s)" % (v["rule"], v["msg"], site, ",".join(c or "-" for c in v["cfgs"])))
                print("VIOLATION property=%s replay=%s" % (self.pid, path))
            return 1
        print("OK property=%s tier=%s obligations=%d discharged=%d known_findings=%d wall=%.1fs" %
              (self.pid, self.tier, n_ob, n_ok, len(self.known_hits), wall))
        return 0
