"""R-CARGO: reviewed Cargo wiring of the HTTP / TLS stacks (manifest audit; the manifest is part of /repo's source)."""
import os
import tomllib

from .engine import VERIF, load_json
from .extract import REPO


def dep_norm(d):
    if isinstance(d, str):
        return {"version": d, "features": []}
    out = dict(d)
    out.setdefault("features", [])
    return out


def r_cargo(run, rule="R-CARGO"):
    T = load_json(os.path.join(VERIF, "tables", "cargo.json"))
    saved = run.cfg
    run.cfg = None
    with open(os.path.join(REPO, "ipp", "Cargo.toml"), "rb") as f:
        m = tomllib.load(f)
    deps = m.get("dependencies", {})
    for name, want in T["ipp"]["dependencies"].items():
        got = dep_norm(deps.get(name, {}))
        for k in ("default-features", "optional"):
            if k in want:
                run.ob(rule, "ipp: dependency %s: %s = %s" % (name, k, want[k]), got.get(k, True if k == "default-features" else False) == want[k],
                       "%s is %s" % (k, got.get(k)), "ipp/Cargo.toml", key="%s|ipp|%s|%s" % (rule, name, k))
        extra = sorted(set(got.get("features", [])) - set(want["features"]))
        missing = sorted(set(want["features"]) - set(got.get("features", [])))
        run.ob(rule, "ipp: dependency %s has exactly the reviewed features %s" % (name, want["features"]), not extra and not missing,
               "unreviewed feature(s) %s enabled, reviewed feature(s) %s missing: a dependency feature can change what is sent, to whom, or how TLS is verified without any source change" % (extra, missing),
               "ipp/Cargo.toml", key="%s|ipp|%s|features|%s" % (rule, name, ",".join(extra + missing)))
    feats = m.get("features", {})
    for name, want in T["ipp"]["features"].items():
        got = feats.get(name)
        run.ob(rule, "ipp: feature %s = %s" % (name, want), got is not None and sorted(got) == sorted(want), "feature %s = %s" % (name, got), "ipp/Cargo.toml",
               key="%s|ipp|feature|%s" % (rule, name))
    with open(os.path.join(REPO, "util", "Cargo.toml"), "rb") as f:
        u = tomllib.load(f)
    got = dep_norm(u.get("dependencies", {}).get("ipp", {}))
    want = T["util"]["ipp"]
    run.ob(rule, "ipputil builds ipp with %s only" % want["features"], got.get("default-features", True) == want["default-features"] and sorted(got["features"]) == sorted(want["features"]),
           "ipp dependency of ipputil: %s" % {k: got.get(k) for k in ("default-features", "features")}, "util/Cargo.toml", key="%s|util|ipp" % rule)
    run.cfg = saved
