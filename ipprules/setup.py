"""setup_cmd: build the extractor and prime the per-configuration dependency caches (offline)."""
import os
import shutil
import sys
import time
import uuid

from . import extract


def main():
    t0 = time.time()
    extract.ensure_driver(verbose=True)
    print("driver ready (%.0fs)" % (time.time() - t0))
    nonce = uuid.uuid4().hex
    out = os.path.join(extract.CACHE, "facts", nonce)
    os.makedirs(out, exist_ok=True)
    try:
        for cfg in "ABCD":
            t = time.time()
            extract.run_config(cfg, out, nonce)
            print("cfg %s primed (%.0fs)" % (cfg, time.time() - t))
        t = time.time()
        extract.frame_sizes()
        print("object-code cache primed (%.0fs)" % (time.time() - t))
    finally:
        shutil.rmtree(out, ignore_errors=True)
    print("setup done in %.0fs" % (time.time() - t0))
    return 0


if __name__ == "__main__":
    sys.exit(main())
