"""C20 - serde feature: header and attributes survive serialise/deserialise (R-SERDE).

Under the serde configuration the *derive output* is audited (it reflects every serde attribute):
for each type in the field-type closure of IppRequestResponse both impls must come from the serde
derives; the generated `serialize` emits, unconditionally and by direct reference, exactly the type's
fields / variants under their own names; the generated `deserialize` field and variant tables equal the
same lists; nothing local is called from the generated code (`with`, `serialize_with`, `default = ..`);
the only omitted field is the payload, whose type implements Default. Plus Cargo feature wiring."""
import os
import re
import tomllib

from ..facts import callee, show, site, unwrap, walk

ROOT = "ipp::request::IppRequestResponse"
SKIPPED = {("ipp::request::IppRequestResponse", "payload")}
LOCAL_TY = re.compile(r"ipp::[A-Za-z0-9_:]+")


def closure_types(F):
    seen, todo = [], [ROOT]
    while todo:
        t = todo.pop()
        if t in seen or t not in F.adts:
            continue
        seen.append(t)
        for v in F.adts[t]["variants"]:
            for f in v["fields"]:
                if (t, f["name"]) in SKIPPED:
                    continue
                for m in LOCAL_TY.findall(f["ty"]):
                    if m in F.adts and m not in seen:
                        todo.append(m)
    return seen


def derived_impl_bodies(F, ty, trait_suffix):
    """All HIR bodies generated for `impl <Trait> for ty` by the derive (prefix match on the impl path)."""
    out = {}
    marker = "%s for %s>" % (trait_suffix, ty)
    for p, b in F.hir.items():
        if marker in p:
            out[p] = b
    return out


def check(run, views, tier):
    run.explanation = (
        "R-SERDE: audit of the serde derive *output* in the resolved HIR under the serde configuration. Per type of the "
        "message closure: Serialize and Deserialize impls exist and originate from the derive macros; the generated "
        "serialize body contains one unconditional serialize_field / *_variant call per field / variant whose name literal "
        "is the item's own name and whose value is a direct reference to the field; the generated FIELDS / VARIANTS "
        "constants (evaluated by the compiler) equal the same lists; the generated code calls nothing from this crate; the "
        "only field left out is IppRequestResponse.payload and its type implements Default. Cargo.toml: serde = "
        "[dep:serde, bytes/serde], serde dependency with the derive feature.")
    run.trusted = ["serde's derive and serde_json invert each other for these shapes (char, byte buffers, string-keyed maps)",
                   "bytes' serde impl for Bytes"]
    run.not_decided = ["round-trip semantics of serde derive + serde_json (third-party)"]
    seen_serde_cfg = False
    for cfg, crates in views.items():
        run.cfg = cfg
        F = crates["ipp"]
        if "serde" not in F.features:
            run.note("serde feature off under cfg %s: derives absent by construction" % cfg)
            continue
        seen_serde_cfg = True
        # every message a parser returns must survive the JSON layer: serde_json refuses documents nested deeper than 128 levels, and one level
        # of an IPP collection that is a 1setOf of collections costs 4 JSON levels (+7 for the envelope). The parser's nesting limit K must keep
        # 4*K + 7 below that (R-DEPTH gives K from the comparison that guards the push).
        from .. import guardrules as _gr
        import os as _os
        from ..engine import VERIF as _V, load_json as _lj
        _saved = (run.explanation, list(run.trusted), list(run.not_decided))
        K = _gr.r_depth(run, F, _lj(_os.path.join(_V, "tables", "panic.json")))
        run.explanation, run.trusted, run.not_decided = _saved
        run.ob("R-SERDE", "parser nesting limit keeps serialised messages within serde_json's recursion limit (4*K+7 <= 128)", K is not None and 4 * K + 7 <= 128,
               "nesting limit K = %s: a parsed message nested that deep serialises to JSON that serde_json::from_str rejects (recursion limit 128)" % K,
               key="R-SERDE|depth-vs-json-recursion-limit")
        types = closure_types(F)
        run.floor("R-SERDE", len(types), 8, "types in the message closure")
        for ty in types:
            adt = F.adts[ty]
            st = "%s:%s (%s)" % (adt["file"], adt["line"], ty)
            imps = F.impls_of(ty)
            for tr, mac in (("Serialize", "Derive:Serialize"), ("Deserialize", "Derive:Deserialize")):
                cand = [i for i in imps if (i.get("trait") or "").endswith("::" + tr)]
                ok = len(cand) == 1 and mac in cand[0]["macros"]
                run.ob("R-SERDE", "%s: %s is derived" % (ty, tr), ok,
                       "found %s" % [(i.get("trait"), i["macros"]) for i in cand] if cand else "no %s impl: the type would not (de)serialise" % tr, st,
                       key="R-SERDE|%s|%s|derived" % (ty, tr))
            ser = derived_impl_bodies(F, ty, "Serialize")
            de = derived_impl_bodies(F, ty, "Deserialize<'de>")
            main = sorted((p for p in ser if p.endswith("::serialize")), key=len)[:1]
            main = [ser[p] for p in main]
            if len(main) != 1:
                run.ob("R-SERDE", "%s: generated serialize found" % ty, False, "%d bodies" % len(main), st, key="R-SERDE|%s|ser-body" % ty)
                continue
            sb = main[0]
            nodes = list(walk(sb["body"]))
            conds = [n for n in nodes if n["k"] == "if" or (n["k"] == "match" and n.get("src") == "normal" and not is_self_match(n))]
            run.ob("R-SERDE", "%s: serialisation is unconditional" % ty, not conds,
                   "generated serialize contains a condition (%s): a field can be left out of the output (skip_serializing_if / with)" % (show(conds[0])[:120] if conds else ""),
                   site(sb), key="R-SERDE|%s|conditional" % ty)
            local_calls = []
            for body in list(ser.values()) + list(de.values()):
                for n in walk(body["body"]):
                    c = callee(n)
                    if c and not n.get("ctor") and c.startswith("ipp::") and "::_serde::" not in c and "<impl ipp::_::_serde" not in c and not c.startswith("<"):
                        local_calls.append((c, body, n))
            run.ob("R-SERDE", "%s: generated code calls nothing from this crate" % ty, not local_calls,
                   "generated (de)serialisation calls %s (serde `with` / `serialize_with` / `deserialize_with` / `default = fn`): representation is custom" % sorted({c for c, _, _ in local_calls}),
                   site(local_calls[0][1], local_calls[0][2]) if local_calls else st, key="R-SERDE|%s|custom-fn" % ty)
            # names emitted
            field_calls = [n for n in nodes if n["k"] == "call" and (n.get("callee") or "").endswith("::serialize_field")]
            kind = adt["kind"]
            consts = {"%s@%s#%d" % (c["path"].split("::")[-1], c["path"], i): c for i, c in enumerate(F.d["types"]["consts"])
                      if ("Deserialize<'de> for %s>" % ty) in c["path"]}
            if kind == "Struct":
                v = adt["variants"][0]
                named = v["fields"] and not v["fields"][0]["name"].isdigit()
                expect = [f["name"] for f in v["fields"] if (ty, f["name"]) not in SKIPPED]
                if named:
                    got = []
                    for n in field_calls:
                        name = unwrap(n["args"][1]).get("v")
                        val = unwrap(n["args"][2])
                        inner = unwrap(val["e"]) if val.get("k") == "ref" else val
                        direct = inner.get("k") == "field" and unwrap(inner["e"]).get("k") == "path" and unwrap(inner["e"])["res"].get("name") == "self"
                        got.append((name, inner.get("name") if direct else None))
                    names = [g[0] for g in got]
                    run.ob("R-SERDE", "%s: serialises every field %s once, by direct reference" % (ty, expect), [g[1] for g in got] == expect and len(set(names)) == len(names),
                           "generated serialize emits %s" % got, site(sb), key="R-SERDE|%s|ser-fields" % ty)
                    flds = [c["value"] for k, c in consts.items() if k.startswith("FIELDS@")]
                    # names may be renamed (rename / rename_all) as long as both directions use the same names
                    run.ob("R-SERDE", "%s: deserialises the same names %s" % (ty, names), flds == [names],
                           "generated serialize writes %s but the generated deserialize expects %s (one-sided rename / skip)" % (names, flds), st,
                           key="R-SERDE|%s|de-fields" % ty)
                    skipped = [f for f in v["fields"] if (ty, f["name"]) in SKIPPED]
                    for f in skipped:
                        fty = LOCAL_TY.findall(f["ty"])
                        has_default = bool(fty) and any(i.get("trait") == "std::default::Default" for i in F.impls_of(fty[0]))
                        run.ob("R-SERDE", "%s.%s is skipped and defaultable" % (ty, f["name"]), has_default, "skipped field type %s has no Default impl" % f["ty"], st,
                               key="R-SERDE|%s|%s|default" % (ty, f["name"]))
                else:
                    nt = [n for n in nodes if n["k"] == "call" and (n.get("callee") or "").endswith("::serialize_newtype_struct")]
                    ok = len(nt) == 1 and unwrap(nt[0]["args"][1]).get("v") == ty.split("::")[-1]
                    run.ob("R-SERDE", "%s: newtype struct serialised as itself" % ty, ok, "calls: %s" % [show(n)[:100] for n in nt], site(sb), key="R-SERDE|%s|newtype" % ty)
            else:
                vnames = [v["name"] for v in adt["variants"]]
                vcalls = [n for n in nodes if n["k"] == "call" and re.search(r"::serialize_(unit|newtype|tuple|struct)_variant$", n.get("callee") or "")]
                got = []
                for n in vcalls:
                    idx = unwrap(n["args"][2])
                    got.append((unwrap(n["args"][1]).get("v"), lit_int(idx), unwrap(n["args"][3]).get("v")))
                srt = sorted(got, key=lambda x: (x[1] is None, x[1]))
                idx_ok = [g[1] for g in srt] == list(range(len(vnames))) and len({g[2] for g in srt}) == len(srt)
                run.ob("R-SERDE", "%s: every variant serialised once under a distinct name, index = declaration order" % ty, idx_ok,
                       "generated variant calls %s for %d variants" % (got[:6], len(vnames)), site(sb), key="R-SERDE|%s|ser-variants" % ty)
                var = [c["value"] for k, c in consts.items() if k.startswith("VARIANTS@")]
                run.ob("R-SERDE", "%s: deserialises the same variant names" % ty, var == [[g[2] for g in srt]],
                       "generated serialize writes %s.. but VARIANTS = %s" % ([g[2] for g in srt][:4], [v[:4] for v in var]), st, key="R-SERDE|%s|de-variants" % ty)
                # struct variants: field names
                sv = {v["name"]: [f["name"] for f in v["fields"]] for v in adt["variants"] if v["fields"] and not v["fields"][0]["name"].isdigit()}
                got_f = [unwrap(n["args"][1]).get("v") for n in field_calls]
                expect_f = [f for v in adt["variants"] if v["name"] in sv for f in sv[v["name"]]]
                run.ob("R-SERDE", "%s: every struct-variant field serialised" % ty, len(got_f) == len(expect_f), "emits %s for fields %s" % (got_f, expect_f), site(sb),
                       key="R-SERDE|%s|ser-variant-fields" % ty)
                fl = sorted(tuple(c["value"]) for k, c in consts.items() if k.startswith("FIELDS@"))
                # group the serialised names per struct variant, in declaration order
                groups, pos = [], 0
                for vn in [v["name"] for v in adt["variants"] if v["name"] in sv]:
                    groups.append(tuple(got_f[pos:pos + len(sv[vn])]))
                    pos += len(sv[vn])
                run.ob("R-SERDE", "%s: struct-variant field tables agree in both directions" % ty, fl == sorted(groups),
                       "generated FIELDS tables %s, serialised names %s" % (fl, sorted(groups)), st, key="R-SERDE|%s|de-variant-fields" % ty)
                for n in field_calls:
                    val = unwrap(n["args"][2])
                    inner = unwrap(val["e"]) if val.get("k") == "ref" else val
                    run.ob("R-SERDE", "%s: variant field passed by direct reference" % ty, inner.get("k") == "path" and inner["res"].get("r") == "local",
                           "value is %s" % show(val)[:100], site(sb, n), key="R-SERDE|%s|variant-field-value" % ty)
    if not seen_serde_cfg:
        run.cfg = None
        run.violate("R-SERDE", "R-SERDE|no-serde-cfg", "no analysed configuration has the serde feature on")
    # Cargo feature wiring (read from the manifest, not from the program)
    run.cfg = None
    from ..extract import REPO
    with open(os.path.join(REPO, "ipp", "Cargo.toml"), "rb") as f:
        m = tomllib.load(f)
    feat = m.get("features", {}).get("serde", [])
    run.ob("R-SERDE", "Cargo: features.serde includes dep:serde and bytes/serde", {"dep:serde", "bytes/serde"} <= set(feat),
           "features.serde = %s (without bytes/serde the raw-octet value cannot be serialised)" % feat, "ipp/Cargo.toml", key="R-SERDE|cargo|feature")
    dep = m.get("dependencies", {}).get("serde", {})
    run.ob("R-SERDE", "Cargo: serde dependency is optional with derive", isinstance(dep, dict) and dep.get("optional") is True and "derive" in dep.get("features", []),
           "serde dependency = %s" % dep, "ipp/Cargo.toml", key="R-SERDE|cargo|dep")


def is_self_match(n):
    s = unwrap(n["scrut"])
    while s.get("k") in ("un", "ref"):
        s = unwrap(s["e"])
    return s.get("k") == "path" and s["res"].get("name") == "self"


def lit_int(n):
    n = unwrap(n)
    while n.get("k") == "cast":
        n = unwrap(n["e"])
    v = n.get("v") if n.get("k") == "lit" else None
    return v if isinstance(v, int) and not isinstance(v, bool) else None
