"""C08 - a message read as a stream is header+attributes then its exact payload (R-CHAIN, R-FORWARD)."""
from ..emit import events_of_trace
from ..facts import site
from ..symx import cshow, paths_of, tshow
from ..terms import is_call, same, subterms

REQ = "ipp::request::IppRequestResponse::"
PAYLOAD_FIELD = ("field", ("var", "self"), "payload")
INNER = ("field", ("var", "self"), "inner")


def is_inner(t):
    """self.inner, also through Pin::get_mut / as_mut / deref_mut of self."""
    if t == INNER:
        return True
    if isinstance(t, tuple) and t[0] == "field" and t[2] == "inner":
        b = t[1]
        while is_call(b) and b[1].split("::")[-1] in ("get_mut", "as_mut", "deref_mut", "get_unchecked_mut", "deref", "as_ref") and b[2]:
            b = b[2][0]
        return b == ("var", "self")
    return False


KINDS = ["Sync", "Async", "Empty"]


def arm_of(p):
    """The payload kind this path serves: the variant a (positive) match on self.inner selected."""
    for c in p.conds:
        if c[0] == "match" and is_inner(c[1]) and not str(c[2]).startswith("!") and c[3] is not False:
            return c[2].split("::")[-1].split("(")[0]
    # no positive test: the kind left over when every other one was refused (`if let Sync(..) {return ..} if let Async(..) {return ..} <Empty>`)
    refused = set()
    for c in p.conds:
        if c[0] == "match" and is_inner(c[1]) and len(c) > 7 and c[7] is not None and c[7][0] == "notin":
            refused |= {q.split("::")[-1] for q in c[7][1]}
    left = [k for k in KINDS if k not in refused]
    if refused and len(left) == 1:
        return left[0]
    return None


VIEWS = {"std::convert::AsMut::as_mut", "std::convert::AsRef::as_ref", "std::ops::DerefMut::deref_mut", "std::ops::Deref::deref", "std::borrow::BorrowMut::borrow_mut",
         "std::boxed::Box::<T, A>::as_mut", "std::boxed::Box::<T, A>::as_ref"}


def inner_obj(t, variant):
    while is_call(t) and t[1] in VIEWS and len(t[2]) == 1:
        t = t[2][0]         # `boxed.as_mut()` is the same reader as `&mut *boxed`
    return isinstance(t, tuple) and t[0] == "proj" and is_inner(t[1]) and t[2] == variant + ".0"


def check(run, views, tier):
    run.explanation = (
        "R-CHAIN: into_read / into_async_read evaluate to chain(Cursor::new(<self.to_bytes(), whole>), <self.payload moved>) "
        "with the std / futures-util chain respectively, cursor first; to_bytes = header then attributes. R-FORWARD: each arm "
        "of `impl Read for IppPayload` and `impl AsyncRead for IppPayload` makes exactly one inner read with the caller's "
        "buffer parameter itself and returns that call's value unchanged (through block_on for the async->sync bridge, "
        "through AllowStdIo for the sync->async bridge); the Empty arm is Ok(0) / Ready(Ok(0)); the constructors box their "
        "argument into the matching variant.")
    run.trusted = ["std::io::Chain / futures_util::io::Chain deliver first then second", "Cursor over Bytes yields the bytes once",
                   "AllowStdIo retries Interrupted and maps read() to poll_read", "futures_executor::block_on drives the future to completion"]
    run.not_decided = ["delivered bytes under every buffer-size sequence follow from pass-through and the trusted adaptors; not separately checked"]
    for cfg, crates in views.items():
        run.cfg = cfg
        F = crates["ipp"]
        has_async = "async" in F.features
        KINDS[:] = ["Sync", "Empty"] + (["Async"] if has_async else [])
        # ---- R-CHAIN ---------------------------------------------------------------------
        specs = [("into_read", "std::io::Read::chain", "std::io::Cursor::<T>::new")]
        if has_async:
            specs.append(("into_async_read", "futures_util::AsyncReadExt::chain", "futures_util::io::Cursor::<T>::new"))
        for name, chain, cursor in specs:
            b = F.body(REQ + name)
            if b is None:
                run.anchor_lost("R-CHAIN", REQ + name)
                continue
            for p in paths_of(b):
                r = p.ret
                ok = is_call(r, chain) and len(r[2]) == 2
                first = r[2][0] if ok else None
                second = r[2][1] if ok else None
                ok1 = ok and is_call(first, cursor) and is_call(first[2][0], REQ + "to_bytes") and first[2][0][2][0] == ("var", "self")
                ok2 = ok and second == PAYLOAD_FIELD
                run.ob("R-CHAIN", "%s = %s(cursor, payload)" % (name, chain.split("::")[-2] + "::chain"), ok, "returns %s" % tshow(r)[:200], site(b),
                       key="R-CHAIN|%s|chain" % name)
                run.ob("R-CHAIN", "%s: first part is a cursor over the whole to_bytes()" % name, ok1, "first = %s" % tshow(first)[:160], site(b),
                       key="R-CHAIN|%s|first" % name)
                run.ob("R-CHAIN", "%s: second part is self.payload, moved" % name, ok2, "second = %s" % tshow(second)[:120], site(b), key="R-CHAIN|%s|second" % name)
                adapt = [t[1] for t in p.trace if is_call(t) and t[1].split("::")[-1] in ("take", "skip", "slice", "split_to", "split_off", "truncate", "advance")]
                run.ob("R-CHAIN", "%s: no slicing adaptor on the way" % name, not adapt, adapt, site(b), key="R-CHAIN|%s|adaptor" % name)
        tb = F.body(REQ + "to_bytes")
        if tb is None:
            run.anchor_lost("R-CHAIN", REQ + "to_bytes")
        else:
            for p in paths_of(tb):
                evs = [e for e in events_of_trace(p.trace) if e.tag == "put"]
                ok = len(evs) == 2 and is_call(evs[0].value, "ipp::IppHeader::to_bytes") and evs[0].value[2][0] == ("field", ("var", "self"), "header") and \
                    is_call(evs[1].value, "ipp::attribute::IppAttributes::to_bytes") and evs[1].value[2][0] == ("field", ("var", "self"), "attributes")
                run.ob("R-CHAIN", "to_bytes = header bytes then attribute bytes", ok, [repr(e) for e in evs], site(tb), key="R-CHAIN|to_bytes")
        # ---- R-FORWARD -------------------------------------------------------------------
        rb = F.body("<ipp::payload::IppPayload as std::io::Read>::read")
        if rb is None:
            run.anchor_lost("R-FORWARD", "impl Read for IppPayload")
        else:
            arms = {}
            for p in paths_of(rb):
                a = arm_of(p)
                r = p.ret
                arms[a] = arms.get(a, 0) + 1
                if a == "Sync":
                    ok = is_call(r, "std::io::Read::read") and inner_obj(r[2][0], "Sync") and r[2][1] == ("var", "buf")
                elif a == "Async":
                    ok = is_call(r, "futures_executor::block_on") and is_call(r[2][0], "futures_util::AsyncReadExt::read") and \
                        inner_obj(r[2][0][2][0], "Async") and r[2][0][2][1] == ("var", "buf")
                elif a == "Empty":
                    ok = r == ("ctor", "std::prelude::v1::Ok", [("lit", 0)]) or (r[0] == "ctor" and r[1].endswith("::Ok") and r[2] == [("lit", 0)])
                else:
                    ok = False
                run.ob("R-FORWARD", "Read::read[%s] forwards the caller's buffer to one inner read and returns its result" % a, ok,
                       "arm evaluates to %s" % tshow(r)[:200], site(rb), key="R-FORWARD|read|%s" % a)
            want = {"Sync", "Empty"} | ({"Async"} if has_async else set())
            run.ob("R-FORWARD", "Read::read has one arm per payload kind", set(arms) == want and all(v == 1 for v in arms.values()), arms, site(rb),
                   key="R-FORWARD|read|arms")
        if has_async:
            ab = F.body("<ipp::payload::IppPayload as futures_util::AsyncRead>::poll_read")
            if ab is None:
                run.anchor_lost("R-FORWARD", "impl AsyncRead for IppPayload")
            else:
                arms = {}
                for p in paths_of(ab):
                    a = arm_of(p)
                    r = p.ret
                    arms[a] = arms.get(a, 0) + 1
                    ok = False
                    if a in ("Async", "Sync") and is_call(r, "futures_util::AsyncRead::poll_read") and len(r[2]) == 3 and r[2][1] == ("var", "cx") and r[2][2] == ("var", "buf"):
                        pin = r[2][0]
                        if is_call(pin, "std::pin::Pin::<Ptr>::new"):
                            tgt = pin[2][0]
                            if a == "Async":
                                ok = inner_obj(tgt, "Async")
                            else:
                                ok = is_call(tgt, "futures_util::io::AllowStdIo::<T>::new") and inner_obj(tgt[2][0], "Sync")
                    elif a == "Empty":
                        ok = r[0] == "ctor" and r[1].endswith("Poll::Ready") and r[2] and r[2][0][0] == "ctor" and r[2][0][1].endswith("::Ok") and r[2][0][2] == [("lit", 0)]
                    run.ob("R-FORWARD", "AsyncRead::poll_read[%s] forwards cx and the caller's buffer to one inner poll" % a, ok,
                           "arm evaluates to %s" % tshow(r)[:200], site(ab), key="R-FORWARD|poll_read|%s" % a)
                run.ob("R-FORWARD", "AsyncRead::poll_read has one arm per payload kind", set(arms) == {"Sync", "Empty", "Async"} and all(v == 1 for v in arms.values()),
                       arms, site(ab), key="R-FORWARD|poll_read|arms")
        # a provided method that is overridden (read_vectored, read_to_end, poll_read_vectored ...) is a second, unanalysed way to the bytes
        for trait, want in (("std::io::Read", ["read"]), ("futures_util::AsyncRead", ["poll_read"])):
            if trait.startswith("futures") and not has_async:
                continue
            items = F.impl_items("ipp::payload::IppPayload", trait)
            run.ob("R-FORWARD", "impl %s for IppPayload defines exactly %s" % (trait.split("::")[-1], want), items == want,
                   "impl defines %s: every overridden provided method is another path to the payload bytes that the forwarding rules do not cover" % items,
                   site(rb) if rb else None, key="R-FORWARD|impl-items|%s" % trait)
        # operations attach the caller's payload as it is (C10's payload clause)
        from ..engine import include
        from . import c10
        include(run, c10, {cfg: crates}, tier, "|payload")
        # constructors
        ctors = [("ipp::payload::IppPayload::new", "Sync", True), ("ipp::payload::IppPayload::empty", "Empty", False),
                 ("<ipp::payload::IppPayload as std::default::Default>::default", "Empty", False)]
        if has_async:
            ctors.append(("ipp::payload::IppPayload::new_async", "Async", True))
        for fn, variant, boxed in ctors:
            b = F.body(fn)
            if b is None:
                run.anchor_lost("R-FORWARD", fn)
                continue
            # one constructor written in terms of another (empty() through Default::default() or the reverse) is judged with that one inlined
            sib = {f2: F.body(f2) for f2, _v, _b in ctors if f2 != fn and F.body(f2) is not None}
            r = paths_of(b, inline=sib)[0].ret
            if fn.endswith("::default") and is_call(r, "ipp::payload::IppPayload::empty") and not r[2]:
                run.ob("R-FORWARD", "%s wraps its argument as %s" % (fn.split("::")[-1], variant), True, "delegates to IppPayload::empty()", site(b), key="R-FORWARD|ctor|%s" % fn)
                continue
            inner = r[2].get("inner") if (r[0] == "ctor" and isinstance(r[2], dict)) else None
            ok = inner is not None and inner[0] == "ctor" and inner[1] == "ipp::payload::PayloadKind::" + variant
            if ok and boxed:
                ok = len(inner[2]) == 1 and is_call(inner[2][0], "std::boxed::Box::<T>::new") and inner[2][0][2][0] == ("var", b["params"][0].get("name"))
            run.ob("R-FORWARD", "%s wraps its argument as %s" % (fn.split("::")[-1], variant), ok, tshow(r)[:160], site(b), key="R-FORWARD|ctor|%s" % fn)
