"""C15 - parsing cost is linear in the input: no amplification by nesting or width (R-COSTSITES + R-DEPTH).

A census of every construct in the parse cone whose cost is not O(1) - loops and calls listed in
tables/cost.json - each classified: per-token (operand is the <= 64 KiB buffer/string of the current
token), bounded (a dominating comparison makes the linear part constant), amortised (operand was
removed from the parser state in this call by pop/take, so each element is processed once), or
bounded-by-depth (a deep copy of accumulated values whose repetition is limited by the constant nesting
limit K of R-DEPTH). Anything else is an amplification site."""
import os
import re

from .. import guardrules as gr
from ..engine import VERIF, load_json
from ..facts import site, unwrap
from ..symx import TooManyPaths, all_calls, cshow, paths_of, simp, tshow
from ..terms import is_call, subterms


def operand_type(t):
    node = t[3] if len(t) > 3 and isinstance(t[3], dict) else {}
    if node.get("k") == "mcall":
        r = node["recv"]
        adj = r.get("adj") or []
        return (adj[-1]["to"] if adj else r.get("ty")) or ""
    if node.get("k") == "call" and node.get("args"):
        return unwrap(node["args"][0]).get("ty") or ""
    return ""


def from_removed_state(term):
    """The operand *itself* (followed through projections, element-of, field and receiver chains - not through the
    arguments of lookups) is a value popped / taken out of the parser state in this call."""
    t = term
    for _ in range(40):
        if not isinstance(t, tuple):
            return False
        k = t[0]
        if k in ("proj", "elem", "field", "ok?", "await", "index", "cast"):
            t = t[2] if k == "cast" else t[1]
            continue
        if k == "phi":
            return from_removed_state(t[1]) or any(from_removed_state(x) for x in t[2])
        if k == "call":
            last = t[1].split("::")[-1]
            if last in ("pop", "take", "replace", "remove", "swap_remove", "pop_front", "pop_back") and t[1].startswith(("std::vec::", "std::option::", "std::mem::", "std::collections::", "core::mem::")):
                return True
            if not t[2]:
                return False
            t = t[2][0]
            continue
        return False
    return False


def len_is_const(conds, term):
    for c in conds:
        if c[0] == "if" and c[2] is True and c[1][0] == "bin" and c[1][1] == "Eq" and is_call(c[1][2]) and c[1][2][1].endswith("::len") and c[1][2][2][0] == term and c[1][3][0] == "lit":
            return c[1][3][1]
    return None


def const_int(F, t):
    t = simp(t) if isinstance(t, tuple) else t
    while isinstance(t, tuple) and t[0] == "cast":
        t = t[2]
    if isinstance(t, tuple) and t[0] == "lit" and isinstance(t[1], int) and not isinstance(t[1], bool):
        return t[1]
    if isinstance(t, tuple) and t[0] == "def":
        v = F.const_value(t[1])
        return v if isinstance(v, int) and not isinstance(v, bool) else None
    return None


def alloc_budget(run, F, T, fn, body, t, node):
    """A constant pre-allocation made once per input token is a constant memory amplification factor: the budget keeps
    a 1 MiB message (whose shortest token is one byte) well under typical address-space limits."""
    name = t[1]
    n = const_int(F, t[2][-1]) if t[2] else None
    if n is None:
        return
    rty = (node.get("ty") or "") if isinstance(node, dict) else ""
    holds_state = any(m in rty for m in T["state_markers"]) or "HashMap" in rty or "BTreeMap" in rty
    limit = T.get("alloc_literal_limit", {}).get("entries" if holds_state else "bytes")
    run.ob("R-COSTSITES", "%s: constant pre-allocation %s(%d) within the per-token budget (%d %s)" % (
        fn.split("::", 1)[-1], name.split("::")[-1], n, limit, "entries" if holds_state else "bytes"), n <= limit,
        "%s(%d) runs once per input token (a group delimiter is one byte): every token pins %d %s of %s, a memory amplification of several KiB per input byte - "
        "a 1 MiB message of bare delimiters exhausts memory and the process aborts" % (name, n, n, "entries" if holds_state else "bytes", rty[:60]),
        site(body, node), key="R-COSTSITES|%s|alloc-constant|%s" % (fn, name.split("::")[-1]))


def check_alloc(run, F):
    """The allocation clauses alone (shared with C02: abort by memory exhaustion)."""
    T = load_json(os.path.join(VERIF, "tables", "cost.json"))
    g = gr.call_graph(F)
    pc = gr.cone(g, gr.PARSE_ROOTS)
    n = 0
    for fn in sorted(f for f in pc if not F.hir[f].get("from_expansion")):
        body = F.hir[fn]
        try:
            paths = paths_of(body)
        except TooManyPaths:
            continue
        seen = set()
        for p in paths:
            for t, _conds in all_calls(p):
                node = t[3] if len(t) > 3 and isinstance(t[3], dict) else {}
                if t[1] in T["alloc"] and id(node) not in seen:
                    seen.add(id(node))
                    n += 1
                    alloc_budget(run, F, T, fn, body, t, node)
    return n


def check(run, views, tier):
    T = load_json(os.path.join(VERIF, "tables", "cost.json"))
    P = load_json(os.path.join(VERIF, "tables", "panic.json"))
    run.explanation = (
        "R-COSTSITES: every call of a linear-cost library function (tables/cost.json: shifting, scanning, copying) and every loop "
        "in the functions of the parse cone (call graph from the parse roots over resolved callees) is classified from the "
        "operand's type, the comparisons that dominate it on its path, and where the operand came from; an unclassified O(state) "
        "operation executed per token is exactly an amplification site. R-DEPTH supplies the constant when a deep copy of "
        "accumulated values is bounded by the nesting limit.")
    run.trusted = ["tables/cost.json lists the linear-cost std/bytes calls used here", "HashMap/BTreeMap insert are O(1)/O(log n)", "allocator cost is proportional to the bytes requested"]
    run.not_decided = ["asymptotic complexity in general (this is a screen for amplification sites, not a complexity proof)", "the log n of BTreeMap::insert", "allocator behaviour"]
    cost = set(T["shift"]) | set(T["scan"]) | set(T["copy"])
    for cfg, crates in views.items():
        run.cfg = cfg
        F = crates["ipp"]
        g = gr.call_graph(F)
        pc = gr.cone(g, gr.PARSE_ROOTS)
        # functions reached only through the trace!/Display edge are the inspect cone's business (C02); keep parser / reader / decoder / constructors
        fns = sorted(f for f in pc if not F.hir[f].get("from_expansion") and not f.startswith("<ipp::value::IppValue as std::fmt::Display>") and gr.standalone(F, f))
        # hash containers filled with peer-chosen names must use the keyed default hasher (HashDoS: an unkeyed hash makes inserts O(n))
        for adt_path, a in sorted(F.adts.items()):
            if not adt_path.startswith("ipp::") or a["file"].endswith(("client.rs",)):
                continue
            for v in a["variants"]:
                for f in v["fields"]:
                    ty = f["ty"]
                    for m in re.finditer(r"std::collections::Hash(Map|Set)<", ty):
                        # count the top-level generic arguments of this HashMap/HashSet
                        depth, args, i = 0, 1, m.end()
                        while i < len(ty):
                            ch = ty[i]
                            if ch == "<":
                                depth += 1
                            elif ch == ">":
                                if depth == 0:
                                    break
                                depth -= 1
                            elif ch == "," and depth == 0:
                                args += 1
                            i += 1
                        want = 2 if m.group(1) == "Map" else 1
                        run.ob("R-COSTSITES", "%s.%s: hash container uses the keyed default hasher" % (adt_path.split("::", 1)[-1], f["name"]), args == want,
                               "field type %s names its own hasher: with an unkeyed hash a peer can choose attribute names that collide, and every insert then "
                               "compares against all earlier names (quadratic parse)" % ty[:140], "%s:%s" % (a["file"], a["line"]),
                               key="R-COSTSITES|hasher|%s.%s" % (adt_path, f["name"]))
        if {"client", "async-client"} & set(F.features):
            from ..engine import Only
            from . import c11
            view = Only(run, "|parse-source")
            if "async-client" in F.features:
                c11.check_send(view, F, c11.ASYNC, "async")
            if "client" in F.features:
                c11.check_send(view, F, c11.BLOCK, "blocking")
        # one element never allocates more than its 16-bit length (R-READEXACT's buffer clauses)
        from .. import readerrules as _rr
        _rr.r_readexact(run, F)
        saved = (run.explanation, run.trusted, run.not_decided)
        K = gr.r_depth(run, F, P)
        run.explanation, run.trusted, run.not_decided = saved
        n_sites = 0
        classes = {}
        for fn in fns:
            body = F.hir[fn]
            try:
                paths = paths_of(body)
            except TooManyPaths:
                run.ob("R-COSTSITES", "%s analysable" % fn, False, "too many paths", site(body))
                continue
            seen = set()
            for p in paths:
                for t, conds in all_calls(p):
                    node = t[3] if len(t) > 3 and isinstance(t[3], dict) else {}
                    if id(node) in seen:
                        continue
                    name = t[1]
                    if name == "<for>":
                        seen.add(id(node))
                        n_sites += 1
                        it = t[2][0]
                        cls = None
                        if from_removed_state(it):
                            cls = "amortised (iterates a list removed from the parser state)"
                        elif any(x[0] == "def" for x in subterms(it)):
                            cls = "bounded (constant table)"
                        classes[cls] = classes.get(cls, 0) + 1
                        run.ob("R-COSTSITES", "%s: loop over %s" % (fn.split("::", 1)[-1], tshow(it)[:50]), cls is not None,
                               "loop over accumulated parser state that stays in the state: its cost is paid again for every later token", site(body, node),
                               key="R-COSTSITES|%s|loop|%s" % (fn, tshow(it)[:40]))
                        continue
                    if name == "<loop>":
                        seen.add(id(node))
                        n_sites += 1
                        ok = fn.endswith("::parse_header_attributes")
                        classes["input loop"] = classes.get("input loop", 0) + 1
                        run.ob("R-COSTSITES", "%s: the input drive loop (one iteration per tag byte)" % fn.split("::", 1)[-1], ok, "unclassified loop", site(body, node),
                               key="R-COSTSITES|%s|raw-loop" % fn)
                        continue
                    if name in T["alloc"]:
                        seen.add(id(node))
                        n_sites += 1
                        size = t[2][-1] if t[2] else None
                        bad = None
                        for x in subterms(size) if size is not None else []:
                            if is_call(x) and x[1].split("::")[-1] in ("len", "capacity", "count", "size_hint") and len(x) > 3:
                                rty = operand_type(x)
                                if any(m in rty for m in T["state_markers"]) or "HashMap" in rty or "BTreeMap" in rty or "Vec<std::vec::Vec" in rty:
                                    bad = (x[1], rty)
                        cls = None if bad else "per-token (pre-sizing by a literal or by the current token's length)"
                        classes[cls] = classes.get(cls, 0) + 1
                        run.ob("R-COSTSITES", "%s: %s(%s)" % (fn.split("::", 1)[-1], name.split("::")[-1], tshow(size)[:40]), cls is not None,
                               "%s is sized by %s of accumulated parser state (%s): memory is allocated in proportion to earlier input for every later token / group" % (
                                   name, bad[0].split("::")[-1] if bad else "?", (bad[1] if bad else "")[:60]), site(body, node),
                               key="R-COSTSITES|%s|alloc|%s" % (fn, name.split("::")[-1]))
                        alloc_budget(run, F, T, fn, body, t, node)
                        if name.split("::")[-1] in ("reserve_exact", "shrink_to_fit", "shrink_to") and t[2]:
                            rty0 = operand_type(t)
                            if any(m in rty0 for m in T["state_markers"]):
                                run.ob("R-COSTSITES", "%s: no exact-size (re)allocation of a growing value list" % fn.split("::", 1)[-1], False,
                                       "%s on %s: exact reservation defeats geometric growth, every push reallocates and copies the list (quadratic in the set / collection width)" % (
                                           name.split("::")[-1], rty0[:60]), site(body, node), key="R-COSTSITES|%s|exact-growth|%s" % (fn, name.split("::")[-1]))
                        continue
                    if name not in cost or not t[2]:
                        continue
                    seen.add(id(node))
                    n_sites += 1
                    oty = operand_type(t)
                    base = oty.replace("&mut ", "").replace("&", "")
                    is_state = any(m in oty for m in T["state_markers"])
                    operand = t[2][0]
                    cls = None
                    if not is_state and (base in T["token_types"] or base.startswith(("std::string::String", "bytes::Bytes", "str", "[u8", "std::borrow::Cow", "std::vec::Vec<u8>", "u8", "std::option::Option<&str"))):
                        cls = "per-token (operand is the current token's buffer/string)"
                    elif not is_state:
                        cls = "per-token (operand type %s holds no accumulated values)" % base[:40]
                    elif len_is_const(conds, operand) is not None:
                        cls = "bounded (length is %d on this path)" % len_is_const(conds, operand)
                    elif name in T["copy"] and K is not None and from_removed_state(operand):
                        # only a copy of state that was popped in this call is repeated at most once per nesting level
                        cls = "bounded-by-depth (deep copy of values popped from the state, repeated at most K=%d times per value by the nesting limit)" % K
                    elif name in T["scan"] and from_removed_state(operand):
                        cls = "amortised (operand removed from the parser state)"
                    classes[cls] = classes.get(cls, 0) + 1
                    run.ob("R-COSTSITES", "%s: %s on %s" % (fn.split("::", 1)[-1], name.split("::")[-1], base[:40]), cls is not None,
                           "%s on accumulated parser state (%s) with no bounding guard, not amortised by a pop/take, and no nesting limit: cost is amplified by nesting / width [%s]" % (
                               name, oty[:60], " && ".join(cshow(c) for c in conds)[-160:]), site(body, node), key="R-COSTSITES|%s|%s|%s" % (fn, name.split("::")[-1], base[:40]))
        # a loop that is left only through `return` never shows up as a completed loop in the path summaries: take the census from the HIR
        classified_lines = set()
        for fn in fns:
            try:
                for p in paths_of(F.hir[fn]):
                    for t, _c in all_calls(p):
                        if t[1] in ("<for>", "<loop>") and len(t) > 3 and isinstance(t[3], dict):
                            classified_lines.add((fn, t[3].get("ln")))
            except TooManyPaths:
                pass
        from ..facts import walk as _walk
        for fn in fns:
            for n in _walk(F.hir[fn]["body"]):
                if n.get("k") == "loop" and (fn, n.get("ln")) not in classified_lines and "desugar:Await" not in (n.get("exp") or []):
                    n_sites += 1
                    run.ob("R-COSTSITES", "%s: loop at line %s is classified" % (fn.split("::", 1)[-1], n.get("ln")), fn.endswith("::parse_header_attributes"),
                           "a `%s` loop that is only left by `return`: its iteration count is not tied to one input token (retry / rescan loops make the cost of one token "
                           "depend on its content)" % (n.get("src") or "loop"), site(F.hir[fn], n), key="R-COSTSITES|%s|return-only-loop" % fn)
        # an accumulator that is copied in every step of a fold / loop makes that step cost what has been built so far: quadratic formatting.
        # Looked for in the whole parse cone *including* Display (the parser formats every value in trace!()).
        for fn in sorted(pc):
            fb = F.hir[fn]
            if fb.get("from_expansion"):
                continue
            for n in _walk(fb["body"]):
                if n.get("k") == "mcall" and n.get("name") in ("fold", "try_fold", "reduce", "scan") and n.get("args"):
                    clo = unwrap(n["args"][-1])
                    if clo.get("k") != "closure" or not clo.get("params"):
                        continue
                    acc = clo["params"][0]
                    acc_id = acc.get("id") if acc.get("k") == "bind" else None
                    copies = []
                    for x in _walk(clo["body"]):
                        exp = x.get("exp") or []
                        is_fmt = any(e.split("::")[-1] in ("format", "format_args") for e in exp)
                        cal = (x.get("callee") or "") if x.get("k") in ("call", "mcall") else ""
                        if is_fmt or cal in T["copy"]:
                            for y in _walk(x):
                                if y.get("k") == "path" and y.get("res", {}).get("r") == "local" and y["res"].get("id") == acc_id:
                                    copies.append(cal or "format!")
                                    break
                    n_sites += 1
                    run.ob("R-COSTSITES", "%s: fold does not copy its accumulator" % fn.split("::", 1)[-1], not copies,
                           "the closure of %s copies / re-formats the accumulator (%s) in every step: the cost of step i is the size built so far (quadratic in the value length)" % (
                               n["name"], sorted(set(copies))[:3]), site(fb, n), key="R-COSTSITES|%s|fold-accumulator" % fn)
        run.floor("R-COSTSITES", n_sites, 6, "cost sites (loops and linear-cost calls) in the parse cone")
        run.floor("R-COSTSITES", len(fns), 15 if "async" in F.features else 8, "functions in the parse cone")
        run.meta.setdefault("coverage_extra", {})["classes_" + cfg] = {str(k): v for k, v in classes.items()}
