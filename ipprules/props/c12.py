"""C12 - TLS: servers are authenticated unless the caller explicitly opts out (R-TLSGATE, roots liveness).

Under each backend configuration: (1) who-may-call: every call of a TLS-weakening API (T-DANGER) or any
callee whose path mentions 'danger', anywhere in the crate, is enumerated; each must lie on an analysed
path of a client `send` and be either control-dependent on the opt-out flag being true (constant `true`
argument / non-verifying constructor) or data-dependent on the flag itself, un-negated and un-combined.
(2) the flag defaults to false and its only writers are the constructor and the public setter. (3) the
accept-all verifier is constructed only under the flag. (4) every stored root certificate reaches the
root store that the connection is built from (PEM first, DER fallback). (5) no TLS state is kept in
process-wide statics other than the reviewed trust-store cache."""
import os

from ..engine import VERIF, load_json
from ..facts import callee, show, site, unwrap, walk
from ..symx import TooManyPaths, all_calls, cshow, paths_of, tshow
from ..terms import is_call, mentions, opt_polarity, same, subterms

SENDS = {"ipp::client::non_blocking::AsyncIppClient::send": ("async-client", ("async-client-tls", "async-client-rustls")),
         "ipp::client::blocking::IppClient::send": ("client", ("client-tls", "client-rustls"))}
BUILDER = "ipp::client::IppClientBuilder"


def flag_term(t, field):
    """self.0.<field> / self.<field>"""
    return isinstance(t, tuple) and t[0] == "field" and t[2] == field and (
        t[1] == ("var", "self") or (t[1][0] == "field" and t[1][2] == "0" and t[1][1] == ("var", "self")))


def truth(t, pol):
    while isinstance(t, tuple) and t[0] == "un" and t[1] == "Not":
        t, pol = t[2], not pol
    return t, pol


def flag_positive(conds, field):
    for c in conds:
        if c[0] in ("if", "guard"):
            t, pol = truth(c[1], c[2])
            if flag_term(t, field) and pol is True:
                return True
        if c[0] == "match" and flag_term(c[1], field) and c[2].strip() == "True" and c[3] is not False:
            return True
    return False


def flag_negative(conds, field):
    for c in conds:
        if c[0] in ("if", "guard"):
            t, pol = truth(c[1], c[2])
            if flag_term(t, field) and pol is False:
                return True
    return False


def check_statics(run, F, T=None):
    """Process-wide state in the client module: shared between clients, so it cannot depend on one client's configuration."""
    if T is None:
        T = load_json(os.path.join(VERIF, "tables", "danger.json"))
    for cpath, c in F.consts.items():
        if c["dk"].startswith("Static") and cpath.startswith("ipp::client"):
            # a reviewed static is recognised by what it is - its name, its type and its initialiser - not by the function it happens to be declared in
            rev = None
            for rp, spec in T["reviewed_statics"].items():
                if isinstance(spec, dict) and c["ty"] == spec["ty"]:        # (whatever it is called and wherever it is declared)
                    ib = F.hir.get(cpath)
                    if ib is not None:
                        cs_ = {callee(x) for x in walk(ib["body"]) if callee(x)}
                        ds_ = {x["res"].get("path") for x in walk(ib["body"]) if x.get("k") == "path" and x.get("res", {}).get("r") == "def" and x["res"].get("dk") == "Fn"}
                        if cs_ <= set(spec["init_calls"]) and ds_ <= set(spec["init_defs"]) and ds_:
                            rev = rp
            run.ob("R-TLSSTATIC", "static %s reviewed" % cpath, rev is not None,
                   "process-wide static %s: %s in the client module is not on the reviewed list; state shared between clients cannot depend on one client's target, "
                   "credentials or opt-out flag" % (cpath, c["ty"]), "%s:%s" % (c["file"], c["line"]), key="R-TLSSTATIC|%s" % cpath)


BUILDER_TYPES = ("native_tls::TlsConnectorBuilder::", "native_tls::TlsConnector::", "reqwest::ClientBuilder::", "ureq::AgentBuilder::", "rustls::ConfigBuilder::",
                 "rustls::ClientConfig::", "rustls::client::", "rustls::RootCertStore::", "rustls::crypto::")


def verifier_internal(F, T):
    """Inherent helper methods of the accept-all verifier that only the verifier's own methods call: part of the verifier, which is gated
    as a whole at its construction site (a helper that anything else calls is not exempt)."""
    own = {p for p, b in F.hir.items() if b.get("impl_self") == T["accept_all_verifier"] and not b.get("impl_trait") and b.get("kind") == "AssocFn"}
    out = set()
    for h in own:
        callers = [b for p, b in F.hir.items() if p != h and any((callee(x) == h or x.get("resolved") == h or (isinstance(x.get("f"), dict) and x["f"].get("res", {}).get("resolved") == h))
                                                                  for x in walk(b["body"]))]
        if callers and all(b.get("impl_self") == T["accept_all_verifier"] for b in callers):
            out.add(h)
    return out


def check_builder_calls(run, F, T):
    """Every option the clients set on the HTTP / TLS stacks is a reviewed one: an option that is not a 'danger' API can still make a
    correctly certified server fail (SNI off, protocol version pins, ALPN) or change whom the client trusts (extra roots, built-in roots off)."""
    reviewed = set(T.get("reviewed_builder_calls", []))
    n = 0
    seen = set()
    internal = verifier_internal(F, T)
    for path, body in F.hir.items():
        if not path.startswith("ipp::client") or "::tests::" in path or path in internal:
            continue
        for x in walk(body["body"]):
            c = callee(x) or ""
            if c.startswith(BUILDER_TYPES):
                n += 1
                if c in seen:
                    continue
                seen.add(c)
                run.ob("R-TLSGATE", "HTTP/TLS option %s is a reviewed one" % c, c in reviewed,
                       "%s is called by the client but is not in the reviewed list of options (tables/danger.json): it changes how the connection is negotiated or "
                       "whom it trusts" % c, site(body, x), key="R-TLSGATE|option|%s" % c)
    return n


def check(run, views, tier):
    T = load_json(os.path.join(VERIF, "tables", "danger.json"))
    FLAG, ROOTS = T["flag_field"], T["roots_field"]
    run.explanation = (
        "R-TLSGATE: complete enumeration (who-may-call over the whole crate, per backend cfg) of TLS-weakening call sites "
        "from tables/danger.json plus any callee whose path mentions 'danger'; each site is located on the symbolic paths of "
        "the client's send() and must be gated by the opt-out flag with the right polarity (control dependence for constant "
        "arguments and non-verifying constructors, identity data dependence for pass-through arguments). Plus: flag default "
        "and writers; accept-all verifier construction sites; liveness of every configured root certificate into the trust "
        "store the connection uses; census of process-wide statics in the client module.")
    run.trusted = ["certificate validation inside native-tls / rustls / reqwest / ureq when configured to verify",
                   "tables/danger.json lists the weakening APIs of those crates"]
    run.not_decided = ["what the TLS libraries do with a verifying configuration (chain building, expiry, host-name match)",
                       "whether reqwest's rustls-only Certificate::from_pem rejects DER input (third-party; the DER fallback is present in the code)"]
    from ..cargorules import r_cargo
    r_cargo(run)
    for cfg, crates in views.items():
        run.cfg = cfg
        F = crates["ipp"]
        if "client" not in F.features and "async-client" not in F.features:
            run.note("no client compiled under cfg %s" % cfg)
            continue
        from .c11 import check_ca_cert_setter, check_config_writers
        check_ca_cert_setter(run, F)
        from ..engine import include as _inc
        from . import c14 as _c14
        # the name the certificate is checked against is the authority the caller gave (C14's authority / shape clauses)
        _inc(run, _c14, {cfg: {"ipp": F}}, tier, "!default_port", "!R-TLSSTATIC", "!R-CONFIG-LIVE")
        check_config_writers(run, F)       # incl.: the builder stores the target uri as given (scheme decides whether TLS is used at all)
        # ---- (1a) enumerate danger sites in the whole crate ------------------------------
        danger_nodes = {}   # id(node) -> (callee, body)
        verifier_nodes = {}
        for path, body in F.hir.items():
            if "::tests::" in path:
                continue
            for n in walk(body["body"]):
                c = callee(n)
                if c and (c in T["apis"] or "danger" in c.lower()):
                    if body.get("impl_self") == T["accept_all_verifier"] and (body.get("impl_trait") in T["verifier_traits"] or path in verifier_internal(F, T)):
                        continue  # the accept-all verifier's own methods; gated at its construction site
                    danger_nodes[id(n)] = (c, body, n)
                if n.get("k") in ("call", "struct", "path") and (n.get("ctor") == T["accept_all_verifier"] or n.get("path") == T["accept_all_verifier"]):
                    verifier_nodes[id(n)] = (body, n)
        # ---- analyse the send paths ------------------------------------------------------
        accounted = set()
        verifier_accounted = set()
        n_sends = 0
        for fn, (feat, tls_feats) in SENDS.items():
            if feat not in F.features:
                continue
            b = F.body(fn)
            if b is None:
                run.anchor_lost("R-TLSGATE", fn)
                continue
            n_sends += 1
            try:
                paths = paths_of(b)
            except TooManyPaths:
                run.ob("R-TLSGATE", "%s analysable" % fn, False, "too many paths", site(b))
                continue
            tls_on = any(f in F.features for f in tls_feats)
            roots_ok_paths = 0
            success_paths = 0
            for p in paths:
                calls = list(all_calls(p))
                for t, conds in calls:
                    node = t[3] if len(t) > 3 else None
                    name = t[1]
                    # verifier constructions inside this call's arguments
                    for a in t[2]:
                        for x in subterms(a):
                            if x[0] == "ctor" and x[1] == T["accept_all_verifier"]:
                                okv = flag_positive(conds, FLAG)
                                for vid, (vb, vn) in verifier_nodes.items():
                                    verifier_accounted.add(vid)
                                run.ob("R-TLSGATE", "accept-all verifier constructed only under the flag (%s)" % fn, okv,
                                       "NoVerifier is constructed on a path where %s is not known to be true [%s]" % (FLAG, " && ".join(cshow(c) for c in conds)[:200]),
                                       site(b, node), key="R-TLSGATE|%s|verifier-ungated" % fn)
                    if id(node) not in danger_nodes:
                        continue
                    accounted.add(id(node))
                    spec = T["apis"].get(name)
                    st = site(b, node)
                    if spec is None:
                        run.ob("R-TLSGATE", "unlisted danger API %s" % name, False,
                               "call of %s (path mentions 'danger') is not in tables/danger.json: review and list it" % name, st,
                               key="R-TLSGATE|%s|unlisted|%s" % (fn, name))
                        continue
                    if spec.get("construct"):
                        run.ob("R-TLSGATE", "%s in %s under the flag" % (name.split("::")[-1], fn.split("::")[-2]), flag_positive(conds, FLAG),
                               "non-verifying constructor %s is reachable without %s being true [%s]" % (name, FLAG, " && ".join(cshow(c) for c in conds)[:240]),
                               st, key="R-TLSGATE|%s|%s|ungated" % (fn, name))
                        continue
                    arg = t[2][spec["flag_arg"]] if len(t[2]) > spec["flag_arg"] else None
                    if arg == ("lit", False):
                        run.ob("R-TLSGATE", "%s(false) in %s" % (name.split("::")[-1], fn.split("::")[-2]), True)
                    elif arg == ("lit", True):
                        run.ob("R-TLSGATE", "%s(true) in %s under the flag" % (name.split("::")[-1], fn.split("::")[-2]), flag_positive(conds, FLAG),
                               "%s(true) is reachable without %s being true [%s]" % (name, FLAG, " && ".join(cshow(c) for c in conds)[:240]), st,
                               key="R-TLSGATE|%s|%s|ungated" % (fn, name))
                    else:
                        run.ob("R-TLSGATE", "%s(flag) in %s passes the flag itself" % (name.split("::")[-1], fn.split("::")[-2]), flag_term(arg, FLAG),
                               "argument of %s is %s, not the opt-out flag itself (negated / combined / unrelated values weaken TLS without the caller asking)" % (name, tshow(arg)[:160]),
                               st, key="R-TLSGATE|%s|%s|argument" % (fn, name))
                # ---- roots liveness on paths that reach the HTTP send ---------------------
                sends = [t for t, _ in calls if t[1] in ("reqwest::RequestBuilder::send", "ureq::Request::send")]
                if not sends or not tls_on:
                    continue
                success_paths += 1
                send_t = sends[-1]
                reach_nodes = {id(x[3]) for x in subterms(send_t) if x[0] == "call" and len(x) > 3}
                def _base(it):
                    while is_call(it) and it[1].split("::")[-1] in ("iter", "into_iter") and it[2]:
                        it = it[2][0]       # `roots.iter()` iterates the same list as `&roots`
                    return it
                fors = [t for t, _ in calls if t[1] == "<for>" and flag_term(_base(t[2][0]), ROOTS)]
                sunk = False
                split_seen = set()
                why = "no loop over self.0.%s on this path" % ROOTS
                for f in fors:
                    for bp in f[3]["paths"]:
                        for t2, _c in all_calls(bp):
                            if t2[1] in T["root_sinks"]:
                                cert = t2[2][1]
                                m = mentions(cert)
                                from_elem = any(x[0] == "elem" for x in subterms(cert))
                                pem = any("from_pem" in c for c in m["callees"])
                                der = any(("from_der" in c) or c.endswith("CertificateDer::<'a>::from_slice") or "from_slice" in c for c in m["callees"])
                                recv = t2[2][0]
                                # receiver object must flow into the value send() is called on
                                recv_nodes = {id(x[3]) for x in subterms(recv) if x[0] == "call" and len(x) > 3}
                                flows = bool(recv_nodes & reach_nodes) or any(x[0] == "phi" and any(y is t2 or same(y, t2) for n in x[2] for y in subterms(n)) for x in subterms(send_t))
                                # which decoder is tried first matters: reqwest's rustls-only from_der never fails (a PEM root would be stored as
                                # garbage DER), its from_pem parses lazily - the reviewed order is PEM, then DER as the fallback inside the closure
                                direct = [x[1] for x in subterms(cert) if x[0] == "call"]
                                order_ok = not (any("from_der" in c for c in direct) and not any("from_pem" in c for c in direct))
                                # the same decision written as a match (`match from_pem(d) { Ok(c) => c, Err(_) => from_der(d)? }`): one body path per
                                # decoder, the DER one under the condition that PEM was tried on the same element and failed
                                pem_conds = [c for c in bp.conds if c[0] == "match" and is_call(c[1]) and "from_pem" in c[1][1] and any(x[0] == "elem" for x in subterms(c[1]))]
                                pem_cond_pol = opt_polarity(pem_conds[-1]) if pem_conds else None
                                if from_elem and flows and pem and not der and pem_cond_pol is True:
                                    split_seen.add("pem")
                                elif from_elem and flows and der and not pem and pem_cond_pol is False:
                                    split_seen.add("der-after-pem")
                                if from_elem and pem and der and flows and order_ok:
                                    sunk = True
                                elif split_seen == {"pem", "der-after-pem"}:
                                    sunk = True
                                else:
                                    why = "root sink %s: from loop element=%s, PEM parse=%s, DER fallback=%s, PEM tried first=%s, store reaches the connection=%s" % (
                                        t2[1], from_elem, pem, der, order_ok, flows)
                if sunk:
                    roots_ok_paths += 1
                else:
                    run.ob("R-CONFIG-LIVE", "every configured root reaches the trust store (%s)" % fn, False, why, site(b),
                           key="R-CONFIG-LIVE|%s|roots" % fn)
                # rustls blocking: on the verifying path the config must be built with the root store
                tc = [t for t, _ in calls if t[1] == "ureq::AgentBuilder::tls_config"]
                for t in tc:
                    cfg_term = t[2][1]
                    m = mentions(cfg_term)
                    if not flag_positive(p.conds, FLAG):
                        ok = any(c.endswith("with_root_certificates") for c in m["callees"]) and not any(c in T["apis"] for c in m["callees"])
                        run.ob("R-TLSGATE", "verifying rustls config uses the root store (%s)" % fn, ok,
                               "config on the non-opt-out path is %s" % tshow(cfg_term)[:200], site(b, t[3]), key="R-TLSGATE|%s|secure-config" % fn)
            if tls_on:
                run.ob("R-CONFIG-LIVE", "root certificates live on every sending path of %s" % fn, success_paths > 0 and roots_ok_paths == success_paths,
                       "%d of %d sending paths feed the configured roots into the trust store" % (roots_ok_paths, success_paths), site(b),
                       key="R-CONFIG-LIVE|%s|roots-all-paths" % fn)
        # ---- (1b) every enumerated site was analysed -------------------------------------
        for nid, (c, body, n) in danger_nodes.items():
            run.ob("R-TLSGATE", "danger site %s in %s analysed" % (c.split("::")[-1], body["def"]), nid in accounted,
                   "call of %s lies outside the analysed send paths (closure passed away, helper function, or another function): ungated by construction" % c,
                   site(body, n), key="R-TLSGATE|%s|%s|unanalysed" % (body["def"], c))
        for vid, (vb, vn) in verifier_nodes.items():
            run.ob("R-TLSGATE", "verifier construction in %s analysed" % vb["def"], vid in verifier_accounted or not danger_nodes,
                   "NoVerifier constructed outside the analysed send paths", site(vb, vn), key="R-TLSGATE|%s|verifier-unanalysed" % vb["def"])
        # floors per cfg
        want = 0
        if "async-client-tls" in F.features or "async-client-rustls" in F.features:
            want += 2
        if "client-tls" in F.features:
            want += 2
        if "client-rustls" in F.features:
            want += 2
        run.floor("R-TLSGATE", len(danger_nodes), want, "TLS-weakening call sites under features %s" % sorted(f for f in F.features if "tls" in f))
        # who-may-implement: the accept-all verifier is the only local certificate verifier
        for imp in F.impls:
            if imp.get("trait") in T["verifier_traits"]:
                run.ob("R-TLSGATE", "certificate verifier impl for %s is the reviewed accept-all type" % imp["self"],
                       imp.get("self_adt") == T["accept_all_verifier"],
                       "another local type implements %s; it would bypass the gate analysis" % imp["trait"],
                       "%s:%s" % (imp["file"], imp["line"]), key="R-TLSGATE|verifier-impl|%s" % imp["self"])
        # ---- (2) default and writers of the flag -----------------------------------------
        nb = F.body(BUILDER + "::<T>::new")
        if nb is None:
            run.anchor_lost("R-TLSGATE", BUILDER + "::<T>::new")
        else:
            for p in paths_of(nb):
                r = p.ret
                ok = r[0] == "ctor" and isinstance(r[2], dict) and r[2].get(FLAG) == ("lit", False)
                run.ob("R-TLSGATE", "flag defaults to false", ok, "constructor sets %s = %s" % (FLAG, tshow(r[2].get(FLAG)) if isinstance(r[2], dict) else "?"), site(nb),
                       key="R-TLSGATE|%s|default" % BUILDER)
        writers = []
        for path, body in F.hir.items():
            if "::tests::" in path:
                continue
            for n in walk(body["body"]):
                if n.get("k") in ("assign", "assignop"):
                    l = unwrap(n["l"])
                    if l.get("k") == "field" and l["name"] == FLAG:
                        writers.append((path, body, n))
                if n.get("k") == "struct" and (n.get("path") or "").startswith(BUILDER) and path != BUILDER + "::<T>::new":
                    upd = "base" in n and unwrap(n["base"]).get("k") == "path" and unwrap(n["base"]).get("res", {}).get("r") == "local"
                    if upd and FLAG not in [f["name"] for f in n["fields"]]:
                        continue        # `Self { other: v, ..self }` carries the flag over unchanged
                    writers.append((path, body, n))
        for path, body, n in writers:
            rhs = None
            if n.get("k") == "assign":
                rhs = unwrap(n["r"])
            elif n.get("k") == "struct" and "base" in n and unwrap(n["base"]).get("k") == "path" and unwrap(n["base"]).get("res", {}).get("r") == "local":
                rhs = [unwrap(f["e"]) for f in n["fields"] if f["name"] == FLAG][0]      # `Self { flag: v, ..self }` is `self.flag = v; self`
            ok = path == BUILDER + "::<T>::ignore_tls_errors" and rhs is not None and rhs.get("k") == "path" and \
                rhs["res"].get("r") == "local" and rhs["res"]["name"] == body["params"][1].get("name")
            run.ob("R-TLSGATE", "flag writer %s stores its parameter" % path, ok, "unexpected writer of %s: %s" % (FLAG, show(n)[:120]), site(body, n),
                   key="R-TLSGATE|%s|writer" % path)
        run.floor("R-TLSGATE", len(writers), 1, "writers of the opt-out flag (the public setter)")
        # ---- (5) statics census -----------------------------------------------------------
        check_statics(run, F, T)
        # ---- (6) census of every option set on the HTTP / TLS builders ----------------------
        check_builder_calls(run, F, T)
