"""C07 - truncated or failing streams are never accepted as complete messages
(R-PROPAGATE, R-ONLYEXIT, R-ERRWRAP, R-READEXACT, R-DISPATCH)."""
from .. import readerrules as rr


def check(run, views, tier):
    run.explanation = (
        "R-PROPAGATE: census of every call in reader.rs / parser.rs whose type is Result<_, io::Error | IppParseError>, each "
        "classified by its consumer in the HIR (`?`, tail/return, map/and_then then propagated - or a swallowing consumer such "
        "as ok(), unwrap_or*, is_ok, `let _ =`, if-let, a discarded statement). R-ONLYEXIT: each drive loop has exactly one "
        "successful exit and its last condition is the end-of-attributes comparison; the loop has one break. R-ERRWRAP: the "
        "From conversions wrap the source error value unchanged and no map_err appears in the parse cone. R-READEXACT makes "
        "short input surface as read_exact's error; R-DISPATCH shows the loop otherwise continues or rejects.")
    run.trusted = ["read_exact returns UnexpectedEof on short input and propagates the source's error kinds"]
    run.not_decided = ["read_exact => UnexpectedEof on EOF (std / futures-util)"]
    for cfg, crates in views.items():
        run.cfg = cfg
        F = crates["ipp"]
        n = rr.r_propagate(run, F)
        run.floor("R-PROPAGATE", n, 20 if rr.async_on(F) else 10, "fallible calls in reader.rs / parser.rs")
        rr.r_stop_onlyexit(run, F)
        rr.r_errwrap(run, F)
        rr.r_readexact(run, F)
        rr.r_dispatch(run, F)
        rr.r_token(run, F)
        # a fault raised while the *payload bridge* feeds a parser must surface too (C08's forwarding clauses)
        from ..engine import include as _inc
        from . import c08 as _c08
        _inc(run, _c08, {cfg: {"ipp": F}}, tier, "R-FORWARD|")
