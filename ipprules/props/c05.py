"""C05 - async parser is observationally identical to the blocking parser (R-TWIN).

Translation validation of the hand-duplicated sync/async siblings: for every fn of the async reader and
parser the blocking sibling is located through the sibling map (tables/sibling.json); both resolved HIR
trees are normalised - async-fn lowering unwrapped, `.await` erased, `log` macro statements dropped,
sibling definitions renamed, locals alpha-renamed by binding order, literals and range bounds by value -
and must be equal. The first difference is reported as a path into the tree with both sides rendered."""
import os
import re

from ..engine import VERIF, load_json
from ..facts import show, site, unwrap

LOG_MACROS = {"trace", "debug", "info", "warn", "error", "log"}


class Norm:
    def __init__(self, smap):
        self.smap = smap
        self.locals = {}
        self.counter = 0

    def path(self, p):
        if p is None:
            return None
        for a, b in self.smap:
            p = p.replace(a, b)
        return p

    def local(self, lid):
        if lid not in self.locals:
            self.locals[lid] = self.counter
            self.counter += 1
        return self.locals[lid]

    def is_log(self, n):
        n = unwrap(n)
        exp = n.get("exp") if isinstance(n, dict) else None
        if not exp:
            return False
        names = [e.split("::")[-1] for e in exp if not e.startswith("desugar:") and not e.startswith("astpass:")]
        return bool(names) and names[-1] in LOG_MACROS

    def root(self, body):
        n = unwrap(body["body"])
        params = [self.pat(p) for p in body.get("params", [])]
        if n.get("k") == "closure" and str(n.get("ckind", "")).startswith("coroutine:Desugared(Async"):
            inner = n["body"]
            while inner.get("k") == "blockx":
                inner = inner["b"]
            stmts = list(inner.get("stmts", []))
            # drop the parameter re-bindings `let p = p;`
            while stmts and stmts[0].get("k") == "let" and stmts[0]["pat"].get("k") == "bind" and "init" in stmts[0]:
                init = unwrap(stmts[0]["init"])
                if init.get("k") == "path" and init["res"].get("r") == "local" and init["res"]["name"] == stmts[0]["pat"]["name"]:
                    # the new binding aliases the parameter
                    self.locals[stmts[0]["pat"]["id"]] = self.local(init["res"]["id"])
                    stmts.pop(0)
                else:
                    break
            rest = {"k": "block", "stmts": stmts}
            if "expr" in inner:
                rest["expr"] = inner["expr"]
            return ("fn", tuple(params), self.n(rest))
        return ("fn", tuple(params), self.n(n))

    def pat(self, p):
        k = p["k"]
        if k == "bind":
            # binding mutability is not compared: it does not change behaviour (`mut self` vs `let mut self = self`)
            return ("bind", self.local(p["id"]), self.pat(p["sub"]) if "sub" in p else None)
        if k == "wild":
            return ("wild",)
        if k in ("pref", "pderef"):
            return ("ref", self.pat(p["p"]))
        if k == "ptuple":
            return ("tuple", tuple(self.pat(x) for x in p["pats"]))
        if k == "ptuplestruct":
            return ("ts", self.path(p.get("path")), tuple(self.pat(x) for x in p["pats"]))
        if k == "pstruct":
            return ("st", self.path(p.get("path")), tuple((f["name"], self.pat(f["p"])) for f in p["fields"]))
        if k == "por":
            return ("or", tuple(self.pat(x) for x in p["pats"]))
        if k == "pexpr":
            e = p["e"]
            if e.get("k") == "lit":
                return ("plit", repr(e["v"]), e.get("neg", False))
            return ("ppath", self.path(p.get("path") or e.get("res", {}).get("path")))
        if k == "prange":
            f = lambda x: (repr(x["v"]), x.get("neg", False)) if x and x.get("k") == "lit" else (self.path((x or {}).get("res", {}).get("path")),)
            return ("range", f(p.get("lo")), f(p.get("hi")), p.get("end"))
        if k == "pguard":
            return ("pguard", self.pat(p["p"]), self.n(p["g"]))
        return (k,)

    def stmts(self, ss):
        out = []
        for s in ss:
            k = s["k"]
            if k in ("semi", "expr"):
                if self.is_log(s["e"]):
                    continue
                out.append((k if k == "semi" else "semi", self.n(s["e"])))
            elif k == "let":
                init = self.n(s["init"]) if "init" in s else None
                els = self.n(s["els"]) if "els" in s else None
                out.append(("let", self.pat(s["pat"]), init, els))
            else:
                out.append((k,))
        return tuple(out)

    def n(self, e):
        e = unwrap(e) if e.get("k") in ("use", "ascribe") else e
        k = e["k"]
        if k == "blockx":
            return self.n(e["b"])
        if k == "block":
            st = self.stmts(e["stmts"])
            tail = self.n(e["expr"]) if "expr" in e else None
            if not st and tail is not None:
                return tail
            return ("block", st, tail)
        if k == "lit":
            return ("lit", repr(e["v"]))
        if k == "path":
            r = e["res"]
            if r.get("r") == "local":
                return ("local", self.local(r["id"]))
            return ("def", self.path(e.get("ctor") or r.get("path")))
        if k == "call":
            return ("call", self.path(e.get("ctor") or e.get("callee")) or self.n(e["f"]), tuple(self.n(a) for a in e["args"]))
        if k == "mcall":
            return ("call", self.path(e.get("callee")) or e["name"], (self.n(e["recv"]),) + tuple(self.n(a) for a in e["args"]))
        if k == "match":
            src = e.get("src")
            if src == "await":
                sc = unwrap(e["scrut"])
                inner = sc["args"][0] if sc.get("k") == "call" and sc.get("args") else sc
                return self.n(inner)
            if src == "try":
                sc = unwrap(e["scrut"])
                inner = sc["args"][0] if sc.get("k") == "call" and sc.get("args") else sc
                return ("try", self.n(inner))
            arms = tuple((self.pat(a["pat"]), self.n(a["guard"]) if "guard" in a else None, self.n(a["body"])) for a in e["arms"])
            return ("match", src, self.n(e["scrut"]), arms)
        if k == "if":
            return ("if", self.n(e["c"]), self.n(e["t"]), self.n(e["e"]) if "e" in e else None)
        if k == "letx":
            return ("letx", self.pat(e["pat"]), self.n(e["init"]))
        if k == "loop":
            return ("loop", e.get("src"), self.n(e["body"]))
        if k == "field":
            return ("field", self.n(e["e"]), e["name"])
        if k == "ref":
            return ("ref", bool(e.get("mut")), self.n(e["e"]))
        if k == "un":
            return ("un", e["op"], self.n(e["e"]))
        if k == "bin":
            return ("bin", e["op"], self.n(e["a"]), self.n(e["b"]))
        if k == "cast":
            return ("cast", self.path(e.get("ty")), self.n(e["e"]))
        if k in ("tup", "array"):
            return (k, tuple(self.n(x) for x in e["es"]))
        if k == "repeat":
            return ("repeat", self.path(e.get("ty")), self.n(e["e"]))
        if k == "struct":
            return ("struct", self.path(e.get("path")), tuple((f["name"], self.n(f["e"])) for f in e["fields"]), self.n(e["base"]) if "base" in e else None)
        if k == "closure":
            return ("closure", tuple(self.pat(p) for p in e.get("params", [])), self.n(e["body"]))
        if k == "ret":
            return ("ret", self.n(e["e"]) if "e" in e else None)
        if k == "break":
            return ("break", self.n(e["e"]) if "e" in e else None)
        if k == "continue":
            return ("continue",)
        if k == "assign":
            return ("assign", self.n(e["l"]), self.n(e["r"]))
        if k == "assignop":
            return ("assignop", e["op"], self.n(e["l"]), self.n(e["r"]))
        if k == "index":
            return ("index", self.n(e["b"]), self.n(e["i"]))
        if k == "yield":
            return ("yield", self.n(e["e"]))
        return (k,)


def canon(t, smap):
    """Unabridged canonical rendering of a symx term: `.await` erased, sibling names mapped, log calls dropped by the caller."""
    if not isinstance(t, tuple):
        return repr(t)
    k = t[0]
    c = lambda x: canon(x, smap)
    if k == "await":
        return c(t[1])
    if k in ("lit",):
        return repr(t[1])
    if k in ("var", "def"):
        return rename(str(t[1]), smap)
    if k == "unit":
        return "()"
    if k == "call" and t[1] in ("std::convert::From::from", "std::convert::Into::into") and len(t[2]) == 1 and len(t) > 3 and isinstance(t[3], dict) and \
            (t[3].get("ty") or "") in ("u8", "u16", "u32", "u64", "usize", "i8", "i16", "i32", "i64", "isize"):
        return "(%s as %s)" % (c(t[2][0]), t[3]["ty"])      # usize::from(x) is x as usize
    if k == "call" and re.match(r"^core::num::<impl [ui]8>::from_(be|le|ne)_bytes$", str(t[1])) and len(t[2]) == 1:
        return "%s[0]" % c(t[2][0])         # a one-byte integer is its byte
    if k == "call" and t[1] in VIEW_CALLS and len(t[2]) == 1:
        return c(t[2][0])           # a view of the same value: buf.as_mut_slice() is &mut buf, bytes.as_ref() is &bytes
    if k == "call" and t[1] == "std::convert::Into::into" and len(t[2]) == 1:
        return "std::convert::From::from(%s)" % c(t[2][0])      # x.into() is T::from(x)
    if k == "call":
        if t[1] in ("<for>", "<loop>") and len(t) > 3 and isinstance(t[3], dict):
            inner = sorted(canon_path(p, smap, in_loop=True) for p in t[3].get("paths", []))
            return "%s(%s){%s}" % (t[1], ", ".join(c(a) for a in t[2]), " || ".join(inner))
        return "%s(%s)" % (rename(t[1] or "?", smap), ", ".join(c(a) for a in t[2]))
    if k == "ctor":
        if isinstance(t[2], dict):
            return "%s{%s}" % (rename(t[1], smap), ", ".join("%s: %s" % (n, c(v)) for n, v in sorted(t[2].items())))
        return "%s(%s)" % (rename(t[1], smap), ", ".join(c(a) for a in t[2]))
    if k in ("tuple", "array"):
        return "%s(%s)" % (k, ", ".join(c(a) for a in t[1]))
    if k == "field":
        return "%s.%s" % (c(t[1]), t[2])
    if k == "index":
        return "%s[%s]" % (c(t[1]), c(t[2]))
    if k == "bin":
        return "(%s %s %s)" % (c(t[2]), t[1], c(t[3]))
    if k == "un":
        return "%s(%s)" % (t[1], c(t[2]))
    if k == "cast":
        return "(%s as %s)" % (c(t[2]), rename(str(t[1]), smap))
    if k == "fmt":
        return "fmt[" + "".join(p[1] if p[0] == "s" else "{" + c(p[1]) + (":" + p[2] if p[2] else "") + "}" for p in t[1]) + "]"
    if k == "closure":
        return "|..| " + rename(show(t[1].get("body")), smap)
    if k == "proj":
        return "%s#%s" % (c(t[1]), rename(str(t[2]), smap))
    if k in ("elem", "ok?", "err?"):
        return "%s(%s)" % (k, c(t[1]))
    if k == "phi":
        return "phi(%s | %s)" % (c(t[1]), " | ".join(sorted(c(x) for x in t[2])))
    return "<%s>" % k


VIEW_CALLS = {"std::vec::Vec::<T, A>::as_mut_slice", "std::vec::Vec::<T, A>::as_slice", "std::convert::AsRef::as_ref", "std::convert::AsMut::as_mut",
              "std::ops::Deref::deref", "std::ops::DerefMut::deref_mut", "std::borrow::Borrow::borrow", "std::borrow::BorrowMut::borrow_mut",
              "std::string::String::as_str", "std::string::String::as_bytes", "core::str::<impl str>::as_bytes"}


def rename(s, smap):
    for a, b in smap:
        s = s.replace(a, b)
    return s


def is_log_call(t):
    # log statements, and pure Option / Result / conversion combinators (their effect is in the conditions and the returned term)
    return isinstance(t, tuple) and t[0] == "call" and (t[1] in VIEW_CALLS or t[1] in ("core::slice::<impl [T]>::iter", "core::slice::<impl [T]>::iter_mut", "std::iter::IntoIterator::into_iter") or
                                                        str(t[1]).startswith(("core::num::", "std::ops::Range", "core::ops::Range", "std::cmp::", "log::", "std::result::Result::", "std::option::Option::", "std::convert::", "<enter>", "<index>", "<arith>")) or
                                                        (str(t[1]).startswith("macro::") and str(t[1]).split("::")[-1] in LOG_MACROS))


def result_match_as_try(p):
    """`match x { Ok(v) => .., Err(e) => Err(e) }` written out is `x?` : conditions on Ok/Err of a call become <is_err> tests, the Ok payload
    becomes ok?(x), and an exit that re-returns the very same error becomes the `?` exit."""
    from ..terms import opt_polarity
    conds, subst = [], []
    for c in p.conds:
        if c[0] == "match" and isinstance(c[1], tuple) and c[1][0] in ("call", "await") and ("::Ok" in c[2] or "::Err" in c[2] or "Ok(" in c[2] or "Err(" in c[2]):
            is_okpat = ("Ok(" in c[2] or "::Ok" in c[2]) and "Err(" not in c[2].split("Ok")[0]
            neg = c[2].startswith("!") or c[3] is False
            ok_side = is_okpat != neg
            conds.append(("if", ("call", "<is_err>", [c[1]], None), not ok_side))
            subst.append(c[1])
        else:
            conds.append(c)

    def rw(t):
        if not isinstance(t, tuple):
            return t
        if t[0] == "proj" and any(t[1] is x or t[1] == x for x in subst) and str(t[2]).startswith("Ok."):
            return ("ok?", t[1])
        if t[0] == "call":
            return (t[0], t[1], [rw(a) for a in t[2]]) + tuple(t[3:])
        if t[0] == "ctor":
            return ("ctor", t[1], {k: rw(v) for k, v in t[2].items()} if isinstance(t[2], dict) else [rw(a) for a in t[2]])
        if t[0] in ("field", "elem", "ok?", "err?", "await"):
            return (t[0], rw(t[1])) + tuple(t[2:])
        if t[0] == "proj":
            return ("proj", rw(t[1]), t[2])
        if t[0] in ("un", "cast"):
            return (t[0], t[1], rw(t[2]))
        if t[0] == "bin":
            return ("bin", t[1], rw(t[2]), rw(t[3]))
        if t[0] == "index":
            return ("index", rw(t[1]), rw(t[2]))
        if t[0] in ("tuple", "array"):
            return (t[0], [rw(a) for a in t[1]])
        return t
    ret, kind = rw(p.ret), p.kind
    if kind in ("fall", "return") and ret[0] == "ctor" and ret[1].endswith("::Err") and isinstance(ret[2], list) and len(ret[2]) == 1:
        e = ret[2][0]
        if e[0] == "proj" and str(e[2]).startswith("Err.") and any(e[1] is x or e[1] == x for x in subst):
            ret, kind = ("err?", e[1]), "try"
        elif e[0] == "call" and e[1] == "<from-err>" and e[2]:
            ret, kind = ("err?", e[2][0]), "try"      # an inlined helper's `?` exit handed on as the caller's own result
    q = type("P", (), {})()
    q.conds, q.trace, q.ret, q.kind = conds, [rw(t) if isinstance(t, tuple) else t for t in p.trace], ret, kind
    return q


F_CUR = [None]


def tag_tests_merged(p):
    """Tests of the dispatched tag byte (range patterns, `contains`, comparisons) are replaced by the set of bytes for which all of them hold:
    `tag @ 0x01..=0x05` and `(0x01..=0x05).contains(&tag)` select the same bytes. Returns (conds with one merged entry, old->new index map)."""
    from ..readerrules import _eval_tag_cond, _tag_value, pattern_matches
    F = F_CUR[0]
    idx = []
    for i, c in enumerate(p.conds):
        if c[0] in ("if", "guard") and F is not None and _eval_tag_cond(c[1], 0, F) not in ("n/a",):
            idx.append(i)
        elif c[0] == "match" and _tag_value(c[1], None):
            idx.append(i)
    if not idx:
        return list(p.conds), {i: i for i in range(len(p.conds) + 1)}
    sel = []
    for v in range(256):
        ok = True
        for i in idx:
            c = p.conds[i]
            if c[0] == "match":
                r = pattern_matches(c[4], v)
                if r is not None and c[3] is False:
                    r = not r
                elif r is not None and len(c) > 8 and c[8]:
                    er = [pattern_matches(q, v) for q in c[8]]
                    r = None if any(x is None for x in er) else (r and not any(er))
            else:
                r = _eval_tag_cond(c[1], v, F)
                r = (r == bool(c[2])) if isinstance(r, bool) else None
            if r is None:
                return list(p.conds), {i: i for i in range(len(p.conds) + 1)}      # not understood: left as written
            if not r:
                ok = False
                break
        if ok:
            sel.append(v)
    rng, out = [], []
    for v in sel:
        if rng and rng[-1][1] == v - 1:
            rng[-1][1] = v
        else:
            rng.append([v, v])
    merged = ("tagset", ",".join("%d-%d" % (a, b) for a, b in rng))
    remap, n = {}, 0
    for i, c in enumerate(p.conds):
        remap[i] = n
        if i in idx:
            if i == idx[0]:
                out.append(merged)
                n += 1
        else:
            out.append(c)
            n += 1
    remap[len(p.conds)] = n
    return out, remap


def canon_path(p, smap, in_loop=False):
    p = result_match_as_try(p)
    conds_in, remap = tag_tests_merged(p)
    conds = []
    for cnd in conds_in:
        if cnd[0] == "tagset":
            conds.append("tag in {%s}" % cnd[1])
            continue
        if cnd[0] == "if":
            conds.append(("" if cnd[2] else "!") + canon(cnd[1], smap))
        elif cnd[0] == "match":
            # binding names in patterns are not compared: `tag @ 1..=5` is `1..=5`, a bare binding is `_`
            ptxt = re.sub(r"\b[a-z_][A-Za-z0-9_]*\s*@\s*", "", rename(str(cnd[2]), smap))
            ptxt = re.sub(r"^(!?)[a-z_][a-z0-9_]*$", r"\1_", ptxt)
            conds.append("%s ~ %s" % (canon(cnd[1], smap), ptxt))
        elif cnd[0] == "guard":
            conds.append("guard " + canon(cnd[1], smap))
        else:
            conds.append(str(cnd[0]))
    # the order of effects: each call with the number of conditions already decided when it runs
    trace = ["%s@%s" % (canon(t, smap), remap.get(t[4], t[4]) if len(t) > 4 else "") for t in p.trace if isinstance(t, tuple) and t[0] == "call" and not is_log_call(t)]
    kind = "fall" if p.kind == "return" else p.kind         # `return x` at the end and the tail expression `x` are the same exit
    if in_loop and kind == "continue":
        kind = "fall"       # `continue` and falling off the end of the loop body both start the next iteration
    # the value an iteration of a loop body falls off with is discarded: `f()?` as the arm's value and `f()?;` as a statement are the same step
    ret = "()" if (in_loop and kind in ("fall", "continue")) else canon(p.ret, smap)
    return "%s [%s] {%s} => %s" % (kind, " && ".join(conds), "; ".join(trace), ret)


def same_paths(ab, sb, smap, inline=None):
    """Second judgement for twins whose trees differ: equal sets of path summaries (conditions in order, calls in order with the
    conditions in force, returned term) mean the two bodies make the same calls with the same arguments under the same tests -
    a one-sided rewrite that only introduces a temporary, reorders declarations or reshapes control flow is not a difference."""
    from ..symx import TooManyPaths, paths_of
    try:
        pa = sorted(canon_path(p, smap) for p in paths_of(ab, inline=inline))
        ps = sorted(canon_path(p, []) for p in paths_of(sb, inline=inline))
    except TooManyPaths:
        return False, "too many paths"
    if pa == ps:
        return True, "%d paths" % len(pa)
    only_a = [x for x in pa if x not in ps]
    only_s = [x for x in ps if x not in pa]
    return False, "async only: %s ||| blocking only: %s" % ((only_a[0] if only_a else "-")[:300], (only_s[0] if only_s else "-")[:300])


def first_diff(a, b, where="body"):
    """Path to the first difference between two normalised trees."""
    if a == b:
        return None
    if isinstance(a, tuple) and isinstance(b, tuple) and a and b and a[0] == b[0] and len(a) == len(b):
        for i, (x, y) in enumerate(zip(a, b)):
            d = first_diff(x, y, "%s/%s[%d]" % (where, a[0] if isinstance(a[0], str) else "", i))
            if d:
                return d
        return where, a, b
    return where, a, b


def brief(t, depth=0):
    if depth > 5:
        return "…"
    if isinstance(t, tuple):
        return "(" + " ".join(brief(x, depth + 1) for x in t[:8]) + (" …" if len(t) > 8 else "") + ")"
    return str(t)


def check(run, views, tier):
    T = load_json(os.path.join(VERIF, "tables", "sibling.json"))
    smap = [tuple(x) for x in T["map"]]
    run.explanation = (
        "R-TWIN (translation validation): every fn of the async reader/parser is paired with its blocking sibling through "
        "the sibling map; both resolved HIR trees are normalised (async lowering unwrapped, `.await` erased, log statements "
        "dropped, sibling definitions renamed, locals alpha-renamed, literals by value) and compared for equality. Both front "
        "ends therefore perform the same reads in the same order with the same tag ranges, early returns and error values, "
        "and call the same ParserState functions (same DefIds). No hand-written Future/poll exists in the two modules.")
    run.trusted = ["futures_util::io::ReadExact is correct for every chunking and wake-up pattern",
                   "std::io::Read::read_exact (short reads / Interrupted)"]
    run.not_decided = ["schedule independence of futures_util::io::ReadExact (third-party)"]
    programs = 0
    disagreements = 0
    samples = []
    any_async = False
    for cfg, crates in views.items():
        run.cfg = cfg
        F = crates["ipp"]
        if "async" not in F.features:
            run.note("no async twins in cfg %s" % cfg)
            continue
        any_async = True
        F_CUR[0] = F
        pairs = []
        for path, body in F.hir.items():
            if "::tests::" in path or body["kind"] not in ("Fn", "AssocFn"):
                continue
            if any(a in path for a in T["async_markers"]):
                sib = path
                for a, b in smap:
                    sib = sib.replace(a, b)
                pairs.append((path, sib))
        # every blocking reader/parser fn of the API must have an async twin too. Private helpers need not be paired one to one: when the
        # trees of two twins differ their path summaries are compared with every private helper of the two modules inlined, so a helper
        # that exists on one side only (extracted there, or inlined away there) is judged through its public callers.
        from ..symx import known_functions
        private = {q: b for q, b in F.hir.items() if "::tests::" not in q and b["kind"] in ("Fn", "AssocFn") and b.get("vis") != "Public" and
                   any(m in q for m in T["sync_markers"] + T["async_markers"])}
        all_fe = {q: b for q, b in F.hir.items() if "::tests::" not in q and b["kind"] in ("Fn", "AssocFn") and any(m in q for m in T["sync_markers"] + T["async_markers"])}
        async_sibs = {s for _, s in pairs}
        for path, body in F.hir.items():
            if "::tests::" in path or body["kind"] not in ("Fn", "AssocFn"):
                continue
            if path not in known_functions() or path in private:
                continue        # a helper: it is inlined into its callers, which are compared
            if any(m in path for m in T["sync_markers"]) and not any(a in path for a in T["async_markers"]):
                run.ob("R-TWIN", "blocking fn %s has an async twin" % path, path in async_sibs, "no async sibling: the two front ends differ in API", site(body),
                       key="R-TWIN|%s|no-async-twin" % path)
        n_pairs = 0
        for apath, spath in pairs:
            ab, sb = F.body(apath), F.body(spath)
            if sb is None and apath in private:
                continue        # judged through its callers (see above)
            if sb is None:
                run.ob("R-TWIN", "async fn %s has a blocking twin" % apath, False, "no blocking sibling %s" % spath, site(ab), key="R-TWIN|%s|no-sync-twin" % apath)
                continue
            n_pairs += 1
            programs += 1
            na = Norm(smap).root(ab)
            ns = Norm([]).root(sb)
            d = first_diff(na, ns)
            if d:
                # trees differ: are the path summaries the same (a one-sided, behaviour-preserving rewrite)?
                eq, why = same_paths(ab, sb, smap, inline=private)
                if not eq:
                    # .. or on primitives: every function of the two front ends (helpers and public siblings alike) inlined, depth-bounded.
                    # Either inlining that makes the summaries equal shows the same calls under the same tests.
                    eq2, why2 = same_paths(ab, sb, smap, inline=all_fe)
                    if eq2:
                        eq, why = eq2, why2
                if eq:
                    d = None
                    detail = "trees differ, path summaries equal (%s)" % why
                    run.note("twin %s: trees differ, path summaries equal" % apath)
                else:
                    disagreements += 1
                    where, x, y = d
                    detail = "twins differ at %s: async has %s, blocking has %s; path summaries differ too: %s" % (where, brief(x)[:200], brief(y)[:200], why)
            else:
                detail = "equal"
            run.ob("R-TWIN", "%s == %s (modulo await)" % (apath.split("::", 2)[-1], spath.split("::", 2)[-1]), d is None, detail, site(ab),
                   key="R-TWIN|%s|differs" % apath)
            if len(samples) < 4:
                samples.append({"async": apath, "blocking": spath, "normalised_size": len(str(na)), "equal": d is None,
                                "normalised_head": brief(na)[:300]})
            asyncness_ok = ab.get("is_async") or not sb.get("is_async")
        run.floor("R-TWIN", n_pairs, 12, "sync/async sibling pairs")
        # no hand-written futures
        for imp in F.impls:
            if imp.get("trait") in ("std::future::Future", "futures_util::Future", "futures_util::Stream") and \
                    any(m in imp["self"] for m in ("ipp::reader", "ipp::parser")):
                run.ob("R-TWIN", "no hand-written Future in reader/parser", False, "impl %s for %s" % (imp["trait"], imp["self"]),
                       "%s:%s" % (imp["file"], imp["line"]), key="R-TWIN|future-impl|%s" % imp["self"])
        for path, body in F.hir.items():
            if (path.startswith("ipp::reader::") or path.startswith("ipp::parser::")) and path.split("::")[-1].startswith("poll") and "::tests::" not in path:
                run.ob("R-TWIN", "no poll_* fn in reader/parser", False, path, site(body), key="R-TWIN|poll-fn|%s" % path)
    # "the same trailing document bytes ... however the source reports not-ready": the payload wrapper must forward polls unchanged (C08's R-FORWARD / R-CHAIN)
    from . import c08
    saved = (run.explanation, run.trusted, run.not_decided)
    c08.check(run, views, tier)
    run.explanation, run.trusted, run.not_decided = saved
    if not any_async:
        run.cfg = None
        run.violate("R-TWIN", "R-TWIN|no-async-cfg", "no analysed configuration contains the async twins")
    run.meta.setdefault("coverage_extra", {}).update({"programs": programs, "disagreements_checked": disagreements, "samples_tv": samples})
    if samples:
        run.meta["coverage_extra"]["samples"] = samples
