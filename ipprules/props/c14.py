"""C14 - ipp/ipps targets map to the right http/https URL and default port (R-SCHEMETABLE).

Every syntactic path of `ipp_uri_to_string` is summarised by the term builder as
(scheme assumed, explicit-port assumed, returned string as a concatenation of text and atoms);
the (scheme -> http scheme, default port) table read off those paths is compared with T-URI, and
each path's output must be assembled from the *whole* authority and the path-and-query."""
import os

from ..engine import VERIF, load_json
from ..facts import site
from ..symx import cshow, paths_of, tshow
from ..terms import opt_polarity, subterms  # noqa: E402
from ..terms import (display_norm, flatten_fmt, is_call, pat_is_catchall, pat_is_none, pat_is_some, pat_some_lit, same,
                     term_callees)

FN = "ipp::client::ipp_uri_to_string"
PQ_OK = {"http::Uri::path_and_query", "std::option::Option::<T>::map", "std::option::Option::<T>::unwrap_or_default",
         "std::option::Option::<T>::unwrap_or", "std::option::Option::<T>::map_or", "std::option::Option::<T>::unwrap_or_else",
         "std::option::Option::<T>::map_or_else", "http::uri::PathAndQuery::as_str", "std::string::ToString::to_string",
         "std::string::String::as_str", "std::string::String::new", "std::default::Default::default",
         "std::option::Option::<T>::as_ref", "std::option::Option::<T>::and_then", "std::option::Option::Some"}
PORT_ACCESSORS = ("http::uri::Authority::port_u16", "http::uri::Authority::port")


def uri_param(t):
    return isinstance(t, tuple) and t[0] == "var"


def authority_of_uri(t):
    """True if t denotes the authority object of the uri parameter (Some-projection / unwrap of uri.authority())."""
    if isinstance(t, tuple) and t[0] == "ok?" and is_call(t[1], "http::Uri::authority"):
        return uri_param(t[1][2][0])        # `uri.authority()?`
    t = display_norm(t)
    if is_call(t, "http::Uri::authority") and uri_param(t[2][0]):
        return True     # (display_norm erases `?`; the Option itself cannot be displayed or asked for a port, so this is its content)
    if isinstance(t, tuple) and t[0] == "proj" and t[2].endswith("Some.0"):
        return is_call(t[1], "http::Uri::authority") and uri_param(t[1][2][0])
    if is_call(t, "std::option::Option::<T>::unwrap", "std::option::Option::<T>::expect"):
        return is_call(t[2][0], "http::Uri::authority")
    return False


def classify(path):
    """-> (scheme literal | '*', explicit_port True/False/None, has_authority True/False/None, problems)"""
    scheme, explicit, has_auth, problems = None, None, None, []
    for c in path.conds:
        if c[0] == "match" and isinstance(c[1], tuple) and c[1][0] == "ok?" and is_call(c[1][1], "http::Uri::scheme_str", "http::uri::Scheme::as_str"):
            # `match uri.scheme_str()? { "ipps" => .., _ => .. }`: the literal arms of the unwrapped text
            pat = c[4]
            while pat and pat.get("k") in ("pref", "pderef"):
                pat = pat["p"]
            if pat and pat.get("k") == "pexpr" and isinstance(pat.get("e"), dict) and pat["e"].get("k") == "lit" and c[3] is not False:
                scheme = pat["e"]["v"]
            elif pat_is_catchall(pat) or c[3] is False:
                scheme = "*" if scheme is None else scheme
            else:
                problems.append("unrecognised scheme test: %s" % cshow(c))
        elif c[0] == "if" and is_call(c[1], "<is_err>") and c[1][2]:
            # `x?` on an Option: continuing means it was Some
            inner, present = c[1][2][0], (c[2] is False)
            if is_call(inner, "http::Uri::scheme_str", "http::uri::Scheme::as_str"):
                if not present:
                    scheme = "*" if scheme is None else scheme
            elif is_call(inner, "http::Uri::authority"):
                has_auth = present
            elif is_call(inner, *PORT_ACCESSORS) and authority_of_uri(inner[2][0]):
                explicit = present
        elif c[0] == "match":
            t, pat = c[1], c[4]
            neg = c[3] is False
            if is_call(t, "http::Uri::scheme_str") or is_call(t, "http::uri::Scheme::as_str"):
                lit = pat_some_lit(pat)
                if lit is not None and not neg:
                    scheme = lit
                elif pat_is_catchall(pat) or pat_is_none(pat) or neg:
                    scheme = "*" if scheme is None else scheme
                else:
                    problems.append("unrecognised scheme test: %s" % cshow(c))
            elif is_call(t, "http::Uri::authority"):
                if pat_is_some(pat):
                    has_auth = not neg
                elif pat_is_none(pat) or pat_is_catchall(pat):
                    has_auth = neg if pat_is_none(pat) else False
            elif is_call(t, *PORT_ACCESSORS) and authority_of_uri(t[2][0]):
                if pat_is_some(pat):
                    explicit = not neg
                elif pat_is_none(pat):
                    explicit = neg
                elif pat_is_catchall(pat):
                    explicit = False
        elif c[0] == "if":
            t, pol = c[1], c[2]
            if is_call(t, "std::option::Option::<T>::is_some", "std::option::Option::<T>::is_none"):
                inner = t[2][0]
                want = (t[1].endswith("is_some")) == pol
                if is_call(inner, *PORT_ACCESSORS) and authority_of_uri(inner[2][0]):
                    explicit = want
                elif is_call(inner, "http::Uri::authority"):
                    has_auth = want
                elif is_call(inner, "http::Uri::port_u16", "http::Uri::port") and uri_param(inner[2][0]):
                    explicit = want
            elif isinstance(t, tuple) and t[0] == "bin" and t[1] in ("Eq", "Ne"):
                a, b = t[2], t[3]
                for x, y in ((a, b), (b, a)):
                    if is_call(x, "http::Uri::scheme_str") and y[0] == "ctor" and y[1].endswith("::Some") and y[2] and y[2][0][0] == "lit":
                        if (t[1] == "Eq") == pol:
                            scheme = y[2][0][1]
                        else:
                            scheme = "*" if scheme is None else scheme
    return scheme, explicit, has_auth, problems


URI_PARSE_OK = {"parse", "from_str", "try_from", "try_into", "into", "from", "clone", "as_str", "as_ref", "to_owned", "to_string", "deref"}


def check_util_target(run, U, rule="R-SCHEMETABLE"):
    """ipputil: the uri given on the command line is parsed and handed to the client builder unchanged."""
    nb = U.body("ipputil::new_client")
    if nb is None:
        run.anchor_lost(rule, "ipputil::new_client")
        return
    pname = nb["params"][0].get("name")
    n = 0
    for p in paths_of(nb):
        for t in p.trace:
            if is_call(t) and t[1].endswith(("::IppClient::builder", "::IppClient::new")):
                n += 1
                a = display_norm(t[2][0])
                while is_call(a) and a[1].split("::")[-1] in ("clone", "into", "from", "to_owned", "as_ref", "borrow") and a[2]:
                    a = display_norm(a[2][0])
                run.ob(rule, "ipputil::new_client builds the client for the uri it was given", a == ("var", pname),
                       "the client is built for %s, not for the target given on the command line (scheme, port, user-info or query of the contacted URL change)" % tshow(t[2][0])[:120],
                       site(nb, t[3]), key="%s|ipputil::new_client|target" % rule)
    run.floor(rule, n, 1, "client constructions in ipputil::new_client")
    m = 0
    for path, body in sorted(U.hir.items()):
        if not path.startswith("ipputil::do_"):
            continue
        for p in paths_of(body):
            for t in p.trace:
                if is_call(t, "ipputil::new_client"):
                    m += 1
                    a = t[2][0]
                    names = {x[1].split("::")[-1] for x in subterms(a) if x[0] == "call"}
                    src = [x for x in subterms(a) if x[0] == "field" and x[2] == "uri"]
                    run.ob(rule, "%s: the command's uri is parsed and passed on unchanged" % path.split("::")[-1], bool(src) and names <= URI_PARSE_OK,
                           "new_client receives %s" % tshow(a)[:120], site(body, t[3]), key="%s|%s|target-arg" % (rule, path))
    run.floor(rule, m, 1, "new_client call sites in ipputil")


def check(run, views, tier):
    run.explanation = (
        "R-SCHEMETABLE: each syntactic path of the private URL-mapping function is summarised as (scheme assumed, "
        "explicit port assumed, output as concatenation of literal text and atoms). The (scheme, http scheme, default "
        "port) table read from those paths is compared with RFC 3510 / RFC 7472 (tables/uri.json); the explicit-port "
        "test must be a port accessor of the uri's authority; the output must contain the whole authority object and "
        "a term built from path_and_query() only; other schemes must return the uri unchanged.")
    run.trusted = ["http::Uri accessor semantics (scheme_str, authority, port_u16, path_and_query, Display)"]
    run.not_decided = []
    T = load_json(os.path.join(VERIF, "tables", "uri.json"))["schemes"]
    for cfg, crates in views.items():
        run.cfg = cfg
        F = crates["ipp"]
        if "client" not in F.features and "async-client" not in F.features:
            run.note("client module not compiled under cfg %s" % cfg)
            continue
        b = F.body(FN)
        if b is None:
            run.anchor_lost("R-SCHEMETABLE", FN)
            continue
        paths = paths_of(b)
        seen = {}
        for p in paths:
            scheme, explicit, has_auth, problems = classify(p)
            out = flatten_fmt(p.ret)
            inst = "path[scheme=%s explicit_port=%s authority=%s]" % (scheme, explicit, has_auth)
            for pr in problems:
                run.ob("R-SCHEMETABLE", inst + " conditions", False, pr, site(b))
            if scheme in (None, "*") or scheme not in T:
                # pass-through: the uri itself, displayed
                r = display_norm(p.ret)
                ok = uri_param(r)
                run.ob("R-SCHEMETABLE", inst + " pass-through", ok,
                       "a target with another scheme must be used as it is, but this path returns %s [%s]" % (tshow(p.ret)[:200], " && ".join(cshow(c) for c in p.conds)),
                       site(b), key="R-SCHEMETABLE|%s|other-scheme|not-pass-through" % FN)
                continue
            if has_auth is False:
                r = display_norm(p.ret)
                run.ob("R-SCHEMETABLE", inst + " no-authority pass-through", uri_param(r),
                       "path without authority returns %s" % tshow(p.ret)[:200], site(b))
                continue
            if explicit is None:
                run.ob("R-SCHEMETABLE", inst + " explicit-port test", False,
                       "unrecognised explicit-port test on this path (accepted: authority.port_u16()/port() is_some/is_none or "
                       "match Some/None); conditions: %s" % " && ".join(cshow(c) for c in p.conds), site(b),
                       key="R-SCHEMETABLE|%s|scheme %s|unrecognised-port-test" % (FN, scheme))
                continue
            # expected normal form:  "<hs>://" A [":<port>"] PQ   (PQ is the empty text on a path that assumes there is no path-and-query)
            no_pq = any(c[0] == "match" and is_call(c[1], "http::Uri::path_and_query") and opt_polarity(c) is False for c in p.conds)
            out = [x for x in out if not (x[0] == "s" and x[1] == "")]
            if no_pq and len([x for x in out if x[0] == "a"]) == 1:
                out = out + [("a", ("call", "http::Uri::path_and_query", [("var", "uri")], {}))]
            atoms = [x for x in out if x[0] == "a"]
            texts = [x[1] for x in out if x[0] == "s"]
            shape_ok = len(out) >= 3 and out[0][0] == "s" and out[0][1].endswith("://") and len(atoms) == 2
            if not shape_ok:
                run.ob("R-SCHEMETABLE", inst + " output shape", False,
                       "output is not <scheme>://<authority>[:<port>]<path-and-query>: %s" % tshow(p.ret)[:300], site(b),
                       key="R-SCHEMETABLE|%s|scheme %s|explicit=%s|output-shape" % (FN, scheme, explicit))
                continue
            hs = out[0][1][:-3]
            A, PQ = atoms[0][1], atoms[1][1]
            mid = out[2][1] if (len(out) == 4 and out[2][0] == "s") else ""
            run.ob("R-SCHEMETABLE", inst + " http scheme", hs == T[scheme]["http_scheme"],
                   "scheme '%s' maps to '%s', expected '%s'" % (scheme, hs, T[scheme]["http_scheme"]), site(b),
                   key="R-SCHEMETABLE|%s|scheme %s|http_scheme=%s" % (FN, scheme, hs))
            run.ob("R-SCHEMETABLE", inst + " whole authority kept", authority_of_uri(A),
                   "the authority part of the output is %s, not the uri's whole authority (user-info / brackets would be lost)" % tshow(A)[:200],
                   site(b), key="R-SCHEMETABLE|%s|scheme %s|explicit=%s|authority-term" % (FN, scheme, explicit))
            cal = set(term_callees(PQ))
            run.ob("R-SCHEMETABLE", inst + " path and query kept", "http::Uri::path_and_query" in cal and cal <= PQ_OK,
                   "the path part of the output is %s (must derive from path_and_query() only)" % tshow(PQ)[:200], site(b),
                   key="R-SCHEMETABLE|%s|scheme %s|explicit=%s|path-term" % (FN, scheme, explicit))
            if explicit:
                run.ob("R-SCHEMETABLE", inst + " explicit port kept", mid == "",
                       "text %r inserted after an authority that already has a port" % mid, site(b),
                       key="R-SCHEMETABLE|%s|scheme %s|explicit-port-altered" % (FN, scheme))
            else:
                want = ":%d" % T[scheme]["default_port"]
                run.ob("R-SCHEMETABLE", inst + " default port", mid == want,
                       "scheme '%s' without a port gets %r, RFC 3510/7472 assign %r" % (scheme, mid, want), site(b),
                       key="R-SCHEMETABLE|%s|arm \"%s\"|default_port=%s" % (FN, scheme, mid.lstrip(":")))
            seen.setdefault(scheme, set()).add(explicit)
        for s in T:
            run.ob("R-SCHEMETABLE", "scheme %s handled with and without explicit port" % s, seen.get(s) == {True, False},
                   "paths found for explicit-port cases %s" % sorted(seen.get(s, [])), site(b))
        run.floor("R-SCHEMETABLE", len(paths), 5, "paths through " + FN)
        if "ipputil" in crates:
            check_util_target(run, crates["ipputil"])
        from .c12 import check_statics
        check_statics(run, F)
        from ..engine import include as _include
        from . import c11 as _c11
        _include(run, _c11, {cfg: {"ipp": F}}, tier, "::send|uri")
        # the URL is computed from the target the caller configured: nobody rewrites the stored uri
        from .c11 import check_config_writers
        check_config_writers(run, F)
        # and both clients feed exactly that uri to the mapping (R-CONFIG-LIVE uri clause of C11)
        from .c11 import ASYNC, BLOCK, cfg_field as _cf
        from ..symx import all_calls as _ac
        for fn in (ASYNC, BLOCK):
            sb = F.body(fn)
            if sb is None:
                continue
            for p in paths_of(sb):
                for t, _c in _ac(p):
                    if is_call(t, FN):
                        run.ob("R-SCHEMETABLE", "%s maps self.0.uri" % fn.split("::")[-2], _cf(t[2][0], "uri"), "maps %s" % tshow(t[2][0])[:80], site(sb, t[3]),
                               key="R-SCHEMETABLE|%s|maps-configured-uri" % fn)
