"""C01 - encode then parse returns the same message (all value kinds, nested).
Structural necessary conditions: encoder and decoder are each other's oracle (R-TAGMAP a/d, R-LAYOUT agreement,
R-LENPREFIX, R-TAGBODY, R-BRACKET, R-CAST, R-FRAME), the parser's state machine discards nothing it received
(R-LINEAR), the payload seam (R-STOP, R-CHAIN)."""
from .. import codecrules as cr
from .. import readerrules as rr
from . import c04


def check(run, views, tier):
    run.explanation = (
        "Round-trip equality is split into the clauses whose truth is in the two big matches and the framing code: "
        "kind -> tag -> kind is the identity for the 19 fixed-tag kinds and the Other fallback keeps tag and bytes; for each "
        "loop-free kind the (width, field) sequence the encoder writes equals the sequence the decoder reads into the same "
        "fields; every value-length prefix equals the size of what follows; in sets and collections every body is announced by "
        "the tag of that value; encoder casts compose with the decoder's to the identity on the field's type (R-CAST, reviewed "
        "cast table); header and attribute framing are written and read in the same order and widths; the parser's state "
        "machine drops no received value on a success path (R-LINEAR on elaborated MIR); nothing is read after the end tag and "
        "the stream view is cursor(to_bytes) then payload. Encoder and decoder are each other's oracle here; the external "
        "tables are C03 / C04's.")
    run.trusted = ["bytes::Buf / BufMut read and write big-endian integers of the stated width", "rustc's drop elaboration"]
    run.not_decided = ["that the composition of these locally-correct pieces is the identity for every message of an unbounded recursive type (needs execution)",
                       "repeated operation-attribute groups (the encoder emits only the first)", "Other{tag} values whose tag is a registered syntax (not injective by construction of the value model)"]
    T = cr.layout_table()
    for cfg, crates in views.items():
        run.cfg = cfg
        F = crates["ipp"]
        # the nesting limit is tested before the stack grows (a limit tested after the push refuses the deepest legal message) - R-DEPTH
        from .. import guardrules as _gr
        from ..engine import VERIF as _V, load_json as _lj
        import os as _os
        _saved = (run.explanation, run.trusted, run.not_decided)
        _gr.r_depth(run, F, _lj(_os.path.join(_V, "tables", "panic.json")))
        run.explanation, run.trusted, run.not_decided = _saved
        from .. import readerrules as _rr
        from .. import codecrules as _cr
        _rr.r_trace_display(run, F)
        _rr.r_token(run, F)
        from .c04 import check_parser_no_add
        check_parser_no_add(run, F)
        # the rest of what "parse(encode(m)) == m" rests on: byte order, lossy text, exact reads, error discipline, and the container
        # the parser fills and the encoder reads (C19's clauses)
        _cr.r_be(run, F)
        _nl = _rr.r_lossy(run, F)
        run.floor("R-LOSSY", _nl, 3, "lossy text conversions")
        _rr.r_readexact(run, F)
        _rr.r_propagate(run, F)
        from ..engine import include as _inc
        from . import c19 as _c19
        _inc(run, _c19, {cfg: {"ipp": F}}, tier)
        n = cr.r_tagmap(run, F, T, check_registry=False)
        run.floor("R-TAGMAP", n, 19, "fixed-tag kinds")
        ne, nd = cr.r_layout(run, F, T, external=False, casts=True)
        run.floor("R-LAYOUT", ne, 20, "loop-free encoder arms")
        run.floor("R-LAYOUT", nd, 19, "decoder arms")
        np_ = cr.r_tagbody_bracket(run, F, T)
        run.floor("R-TAGBODY", np_, 2, "tag/body pairs in sets and collections")
        cr.r_frame(run, F)
        nl = c04.r_linear(run, F)
        run.floor("R-LINEAR", nl, 6, "drop sites of value-holding places in the state machine")
        rr.r_stop_onlyexit(run, F)
        # the parser accepts every value tag the encoder can announce (Other{tag} carries any tag of the value range)
        rr.r_dispatch(run, F)
        c04.r_state_order(run, F)    # groups are closed and opened in message order, empty ones included; one value -> scalar, several -> set
        rr.r_reject(run, F)      # the parser refuses nothing the encoder can produce beyond the reviewed rejections
        # the encoder emits every attribute exactly once: ordered list, then exactly its complement (R-ORDERLIST), groups, end tag
        from . import c09
        saved0 = (run.explanation, run.trusted, run.not_decided)
        c09.check(run, {cfg: crates}, tier, with_ops=False)
        run.explanation, run.trusted, run.not_decided = saved0
        run.cfg = cfg
        from . import c08
        saved = (run.explanation, run.trusted, run.not_decided)
        c08.check(run, {cfg: crates}, tier)
        run.explanation, run.trusted, run.not_decided = saved
        run.cfg = cfg
