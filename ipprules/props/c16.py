"""C16 - protocol code tables match the registries; status decoding is total.

Decided completely on tables extracted from the program: every discriminant against T-REG;
the derived decode chains (`FromPrimitive::from_u64/from_i64`) as literal->variant tables,
enumerated over all 65 536 / 256 inputs; `IppHeader::status_code` fallback shape; the success set."""
import json
import os
import re

from ..engine import VERIF, load_json
from ..facts import callee, lit_of, show, site, unwrap, walk

REG = os.path.join(VERIF, "tables", "registry.json")


def norm(s):
    return re.sub(r"[^a-z0-9]", "", s.lower())


def wrap_int(n, ty):
    bits = {"i8": 8, "i16": 16, "i32": 32, "i64": 64, "isize": 64, "u8": 8, "u16": 16, "u32": 32, "u64": 64, "usize": 64}[ty]
    n &= (1 << bits) - 1
    if ty.startswith("i") and n >= 1 << (bits - 1):
        n -= 1 << bits
    return n


def decode_table(run, F, enum_path, fn):
    """Extract (cast_ty, {literal: variant_path}) from `<E as FromPrimitive>::fn`; None on unknown shape."""
    path = "<%s as num_traits::FromPrimitive>::%s" % (enum_path, fn)
    b = F.body(path)
    if b is None:
        run.anchor_lost("R-DECODE", path)
        return None
    m = unwrap(b["body"])
    if m.get("k") != "match":
        run.ob("R-DECODE", "%s shape" % path, False, "unrecognised decode shape: body is not a single match: %s" % show(m)[:200], site(b))
        return None
    scrut = unwrap(m["scrut"])
    cast_ty = None
    if scrut.get("k") == "cast":
        cast_ty = scrut["ty"]
        inner = unwrap(scrut["e"])
    else:
        inner = scrut
        cast_ty = scrut.get("ty")
    if not (inner.get("k") == "path" and inner["res"].get("r") == "local"):
        run.ob("R-DECODE", "%s scrutinee" % path, False, "unrecognised decode scrutinee: %s" % show(scrut), site(b, m))
        return None
    table = {}
    default_none = False
    ok = True
    for arm in m["arms"]:
        pat = arm["pat"]
        body = unwrap(arm["body"])
        if "guard" in arm:
            ok = False
            run.ob("R-DECODE", "%s arm" % path, False, "guarded arm in decode table: %s" % show(pat), site(b, pat))
            continue
        if pat["k"] == "wild" or pat["k"] == "bind":
            if body.get("k") == "path" and body["res"].get("path", "").endswith("::None"):
                default_none = True
            else:
                ok = False
                run.ob("R-DECODE", "%s default" % path, False,
                       "decode default arm is not `None`: %s" % show(body), site(b, body))
            continue
        lits = []
        pats = pat["pats"] if pat["k"] == "por" else [pat]
        for p in pats:
            if p["k"] == "pexpr" and p["e"]["k"] == "lit" and isinstance(p["e"]["v"], int):
                v = p["e"]["v"]
                lits.append(-v if p["e"].get("neg") else v)
            else:
                ok = False
                run.ob("R-DECODE", "%s arm" % path, False, "non-literal pattern in decode table: %s" % show(p), site(b, p))
        # body must be Some(<unit variant path>)
        var = None
        if body.get("k") == "call" and body.get("ctor", "").endswith("::Some") and len(body["args"]) == 1:
            a = unwrap(body["args"][0])
            if a.get("k") == "path" and a.get("ctor"):
                var = a["ctor"]
        if var is None:
            ok = False
            run.ob("R-DECODE", "%s arm" % path, False, "decode arm body is not Some(<variant>): %s" % show(body), site(b, body))
            continue
        for l in lits:
            if l in table:
                ok = False
                run.ob("R-DECODE", "%s arm %d" % (path, l), False, "literal %d decoded twice" % l, site(b, pat))
            table[l] = var
    if not default_none:
        ok = False
        run.ob("R-DECODE", "%s default" % path, False, "no `_ => None` arm", site(b))
    if not ok:
        return None
    return cast_ty, table, b


def check_enum(run, F, enum_path, spec, reg_all):
    adt = F.adts.get(enum_path)
    if adt is None:
        run.anchor_lost("R-DISCR", enum_path)
        return None
    core = {norm(k): v for k, v in spec["core"].items()}
    ext = {norm(k): v for k, v in spec.get("extended", {}).items()}
    aliases = spec.get("aliases", {})
    by_number = {}
    for k, v in list(core.items()) + list(ext.items()):
        by_number.setdefault(v, k)
    unknown = spec.get("unknown_symbol")
    discr = {}
    seen_core = set()
    for v in adt["variants"]:
        name, d = v["name"], v.get("discr")
        discr[v["path"]] = d
        n = aliases.get(norm(name), norm(name))
        st = "%s:%s (%s)" % (adt["file"], adt["line"], v["path"])
        if unknown and name == unknown["name"]:
            run.ob("R-DISCR", "%s = %d" % (v["path"], unknown["value"]), d == unknown["value"],
                   "fallback symbol has discriminant %s, expected %d" % (d, unknown["value"]), st)
            if d in by_number:
                run.ob("R-DISCR", "%s collides" % v["path"], False,
                       "fallback symbol's number %d is a registered code (%s)" % (d, by_number[d]), st)
            continue
        if n in core:
            seen_core.add(n)
            run.ob("R-DISCR", "%s = %d" % (v["path"], core[n]), d == core[n],
                   "discriminant %s but the registry assigns %d (0x%04x) to this keyword" % (d, core[n], core[n]), st)
        elif n in ext:
            run.ob("R-DISCR", "%s = %d (extended registry)" % (v["path"], ext[n]), d == ext[n],
                   "discriminant %s but the registry assigns %d to this keyword" % (d, ext[n]), st)
        else:
            # not known by name: acceptable only if the number is unassigned
            other = by_number.get(d)
            run.ob("R-DISCR", "%s unregistered-name" % v["path"], other is None,
                   "variant name is not a registry keyword and its number %s is assigned to '%s'" % (d, other), st)
    missing = sorted(set(core) - seen_core)
    run.ob("R-DISCR", "%s defines every core registry code" % enum_path, not missing,
           "registry codes without a variant (decode would not recognise them): %s" % missing,
           "%s:%s" % (adt["file"], adt["line"]))
    # duplicates
    vals = [v.get("discr") for v in adt["variants"]]
    run.ob("R-DISCR", "%s discriminants distinct" % enum_path, len(vals) == len(set(vals)), "duplicate discriminants")
    return adt, discr


def check_status_semantics(run, F, reg, count_inputs=None):
    """status decoding (decode-or-unknown, total over 65536) and the success classification."""
    exhaustive_inputs = 0
    # ---- status_code: decode or unknown ------------------------------------------------
    sc = F.body("ipp::IppHeader::status_code")
    spec = reg["ipp::model::StatusCode"]
    unknown_path = "ipp::model::StatusCode::" + spec["unknown_symbol"]["name"]
    if sc is None:
        run.anchor_lost("R-STATUS", "ipp::IppHeader::status_code")
    else:
        e = unwrap(sc["body"])
        ok, why = status_code_shape(e, unknown_path)
        if not ok:
            ok2, why2 = status_code_paths(sc, unknown_path)      # any other spelling of the same two exits (let-else, if-let, temporaries)
            if ok2:
                ok, why = True, why2
        run.ob("R-STATUS", "status_code = from_u16(operation_or_status) or-else Unknown", ok, why, site(sc, e))
        if ok and "ipp::model::StatusCode" in F.adts:
            # totality over all 65536 values on the extracted table
            t = decode_table(run, F, "ipp::model::StatusCode", "from_u64")
            if t is not None:
                cast_ty, table, _ = t
                discr = {v["path"]: v["discr"] for v in F.adts["ipp::model::StatusCode"]["variants"]}
                core_by_num = {v: k for k, v in spec["core"].items()}
                bad = []
                for n in range(65536):
                    got = table.get(wrap_int(n, cast_ty), unknown_path)
                    if n in core_by_num:
                        if discr.get(got) != n or got == unknown_path:
                            bad.append((n, got))
                    else:
                        if got != unknown_path and discr.get(got) != n:
                            bad.append((n, got))
                exhaustive_inputs += 65536
                run.ob("R-STATUS", "status decoding total over 65536 codes", not bad,
                       "status %s decodes to %s" % (bad[0] if bad else ("", "")), site(sc))
    # ---- is_success ---------------------------------------------------------------------
    isb = F.body("ipp::model::StatusCode::is_success")
    if isb is None:
        run.anchor_lost("R-SUCCESS", "ipp::model::StatusCode::is_success")
    elif "ipp::model::StatusCode" in F.adts:
        all_variants = [v["path"] for v in F.adts["ipp::model::StatusCode"]["variants"]]
        load_const_lists(F)
        tset, why = true_set_eval(unwrap(isb["body"]), {v["path"]: v["discr"] for v in F.adts["ipp::model::StatusCode"]["variants"]})
        if tset is None:
            run.ob("R-SUCCESS", "is_success shape", False, why, site(isb))
        else:
            discr = {v["path"]: v["discr"] for v in F.adts["ipp::model::StatusCode"]["variants"]}
            nums = sorted(discr[p] for p in tset)
            run.ob("R-SUCCESS", "success set contains RFC 8011 successful codes", set(spec["successful"]) <= set(nums),
                   "is_success is true for %s, which misses some of %s" % (nums, spec["successful"]), site(isb))
            out = [n for n in nums if n > spec["success_class_max"]]
            run.ob("R-SUCCESS", "success set within 0x0000-0x00ff", not out,
                   "is_success is true for codes outside the successful class: %s" % [hex(x) for x in out], site(isb))
            run.ob("R-SUCCESS", "unknown is not success", unknown_path not in tset, "the fallback symbol is reported as success", site(isb))
    return exhaustive_inputs


def check(run, views, tier):
    run.explanation = (
        "Finite-domain proof on tables extracted from the type-checked program: (1) every enum discriminant, as "
        "evaluated by the compiler, equals the registry number of its keyword (T-REG, tables/registry.json); (2) the "
        "derived FromPrimitive decode chains are read as literal->variant tables and enumerated over every 16-bit "
        "(status, operation) / 8-bit (tags) input: decode(n)=Some(v) iff disc(v)=n; (3) IppHeader::status_code is "
        "decode-or-unknown; (4) StatusCode::is_success maps exactly a set of variants to true which contains the "
        "RFC 8011 successful codes and lies inside 0x0000-0x00ff. Each obligation names one variant, one decode "
        "table, or one input class.")
    run.trusted = ["rustc's evaluation of discriminants and its HIR/type tables",
                   "num-traits: provided FromPrimitive::from_u8/u16/i32 delegate to from_u64/from_i64",
                   "tables/registry.json (hand-reviewed against RFC 8010/8011, PWG 5100.1, CUPS ipp.h)"]
    run.not_decided = ["num-traits' default method bodies (third-party)"]
    reg = load_json(REG)["enums"]
    exhaustive_inputs = 0
    for cfg, crates in views.items():
        run.cfg = cfg
        F = crates["ipp"]
        n_variants = 0
        for enum_path, spec in reg.items():
            r = check_enum(run, F, enum_path, spec, reg)
            if r is None:
                continue
            adt, discr = r
            n_variants += len(adt["variants"])
            # impl must not override the provided narrow methods
            impls = F.impls_of(enum_path, "num_traits::FromPrimitive")
            if len(impls) != 1:
                run.ob("R-DECODE", "%s FromPrimitive impl" % enum_path, False, "expected exactly one impl, found %d" % len(impls))
                continue
            items = sorted(i["name"] for i in impls[0]["items"])
            run.ob("R-DECODE", "%s impl items" % enum_path, items == ["from_i64", "from_u64"],
                   "impl defines %s; only from_i64/from_u64 are analysed (an overridden narrow method is unanalysed)" % items,
                   "%s:%s" % (impls[0]["file"], impls[0]["line"]))
            run.ob("R-DECODE", "%s impl provenance" % enum_path, True,
                   "macros=%s" % impls[0]["macros"])
            tabs = {}
            for fn in ("from_u64", "from_i64"):
                t = decode_table(run, F, enum_path, fn)
                if t is not None:
                    tabs[fn] = t
            if len(tabs) != 2:
                continue
            by_disc = {d: p for p, d in discr.items()}
            width = spec["width"]
            for fn, (cast_ty, table, body) in tabs.items():
                # exhaustive enumeration over the wire domain of this enum
                if width in (8, 16):
                    domain = range(1 << width)
                else:
                    # 32-bit attribute enums: every table key, every discriminant, neighbours and extremes
                    pts = set(table) | set(by_disc) | {0, 1, 2, -1, 2**31 - 1, -2**31}
                    pts |= {p + 1 for p in list(pts)} | {p - 1 for p in list(pts)}
                    domain = sorted(p for p in pts if -2**31 <= p < 2**31)
                bad = []
                for n in domain:
                    got = table.get(wrap_int(n, cast_ty))
                    want = by_disc.get(n)
                    if got != want:
                        bad.append((n, got, want))
                exhaustive_inputs += len(domain)
                run.ob("R-DECODE", "%s::%s identity over %d inputs" % (enum_path, fn, len(domain)), not bad,
                       "decode(n) != variant-with-discriminant-n for n=%s (got %s, expected %s)" % (bad[0] if bad else ("", "", "")),
                       site(body))
            run.ob("R-DECODE", "%s from_u64 table == from_i64 table" % enum_path, tabs["from_u64"][1] == tabs["from_i64"][1],
                   "signed and unsigned decode tables differ")
        run.floor("R-DISCR", n_variants, 150, "enum variants compared with the registry")

        exhaustive_inputs += check_status_semantics(run, F, reg)
    # "the numeric codes the library emits and recognises": every value is announced with the tag of its own kind and every
    # registered tag is recognised as the kind that emits it (R-TAGMAP, R-TAGBODY of the codec rules)
    from .. import codecrules as cr
    TL = cr.layout_table()
    for cfg, crates in views.items():
        run.cfg = cfg
        cr.r_tagmap(run, crates["ipp"], TL, check_registry=True)
        cr.r_tagbody_bracket(run, crates["ipp"], TL)
        # "the codes the library ... recognises": the parser's tag dispatch is the registry's partition, unknown delimiters are rejected
        from .. import readerrules as rr
        rr.r_dispatch(run, crates["ipp"])
        # "the numeric codes the library emits": each operation type sends its own operation id (C10's op-id clause)
        from ..engine import include
        from . import c10
        include(run, c10, {cfg: crates}, tier, "|op-id")
        from . import c17
        include(run, c17, {cfg: {"ipp": crates["ipp"]}}, tier, "R-READY")
        # the status word that is decoded is the one on the wire: exact, non-retried reads of the header (C07 / C06's reader clauses)
        from . import c07
        include(run, c07, {cfg: {"ipp": crates["ipp"]}}, tier)
    run.meta.setdefault("coverage_extra", {})["exhaustive"] = True
    run.meta["coverage_extra"]["inputs_enumerated"] = exhaustive_inputs


def status_code_paths(body, unknown_path):
    """The same judgement on the function's paths: exactly the path `from_u16::<StatusCode>(self.operation_or_status)` is Some -> that
    symbol, and the path it is None -> the unknown symbol; or one path returning f(x).unwrap_or(U)."""
    from ..symx import TooManyPaths, paths_of, tshow
    from ..terms import is_call, opt_polarity
    try:
        ps = paths_of(body)
    except TooManyPaths:
        return False, "too many paths"

    def dec(t):
        if not (is_call(t, "num_traits::FromPrimitive::from_u16") and t[2] == [("field", ("var", "self"), "operation_or_status")]):
            return False
        node = t[3] if len(t) > 3 and isinstance(t[3], dict) else {}
        return ((node.get("f") or {}).get("res", {}).get("args") or [])[:1] == ["ipp::model::StatusCode"]
    unknown = ("ctor", unknown_path, [])
    seen = set()
    for p in ps:
        if p.kind not in ("fall", "return"):
            return False, "exit of kind %s" % p.kind
        if not p.conds and is_call(p.ret, "std::option::Option::<T>::unwrap_or") and dec(p.ret[2][0]) and p.ret[2][1] == unknown:
            seen |= {True, False}
            continue
        if len(p.conds) != 1 or p.conds[0][0] != "match" or not dec(p.conds[0][1]):
            return False, "path condition is not the decoding test: %s" % [c[0] for c in p.conds]
        pol = opt_polarity(p.conds[0])
        if pol is True and p.ret == ("proj", p.conds[0][1], "Some.0"):
            seen.add(True)
        elif pol is False and p.ret == unknown:
            seen.add(False)
        else:
            return False, "on the %s side the function returns %s" % ("Some" if pol else "None", tshow(p.ret)[:120])
    return seen == {True, False}, "paths: decoded symbol when known, %s otherwise" % unknown_path.split("::")[-1]


def status_code_shape(e, unknown_path):
    """Accepted idioms: f(x).unwrap_or(U), f(x).unwrap_or_else(|| U), match f(x) {Some(s)=>s, None=>U},
    with f = FromPrimitive::from_u16::<StatusCode> and x = self.operation_or_status."""
    def is_unknown(n):
        n = unwrap(n)
        return n.get("k") == "path" and n.get("ctor") == unknown_path

    def is_decode(n):
        n = unwrap(n)
        if n.get("k") != "call" or n.get("callee") != "num_traits::FromPrimitive::from_u16":
            return False, "not a call of FromPrimitive::from_u16: %s" % show(n)[:120]
        args = n["f"]["res"].get("args", [])
        if args[:1] != ["ipp::model::StatusCode"]:
            return False, "from_u16 is not instantiated at StatusCode: %s" % args
        a = unwrap(n["args"][0])
        if not (a.get("k") == "field" and a["name"] == "operation_or_status" and unwrap(a["e"]).get("k") == "path"
                and unwrap(a["e"])["res"].get("name") == "self"):
            return False, "argument is not self.operation_or_status: %s" % show(a)
        return True, ""

    if e.get("k") == "mcall" and e.get("callee") in ("std::option::Option::<T>::unwrap_or",):
        ok, why = is_decode(e["recv"])
        if not ok:
            return False, why
        if not is_unknown(e["args"][0]):
            return False, "fallback is %s, expected %s" % (show(e["args"][0]), unknown_path)
        return True, show(e)
    if e.get("k") == "mcall" and e.get("callee") == "std::option::Option::<T>::unwrap_or_else":
        ok, why = is_decode(e["recv"])
        if not ok:
            return False, why
        c = unwrap(e["args"][0])
        if c.get("k") == "closure" and is_unknown(c["body"]):
            return True, show(e)
        return False, "fallback closure is %s" % show(c)
    if e.get("k") == "match":
        ok, why = is_decode(e["scrut"])
        if not ok:
            return False, why
        good = 0
        for arm in e["arms"]:
            p, b = arm["pat"], unwrap(arm["body"])
            if "guard" in arm:
                return False, "guarded arm"
            if p["k"] == "ptuplestruct" and p.get("path", "").endswith("::Some") and p["pats"][0]["k"] == "bind":
                if b.get("k") == "path" and b["res"].get("id") == p["pats"][0]["id"]:
                    good += 1
                    continue
                return False, "Some arm does not return the decoded symbol: %s" % show(b)
            if (p["k"] in ("wild",)) or (p["k"] == "pexpr" and str(p.get("path", "")).endswith("::None")):
                if is_unknown(b):
                    good += 1
                    continue
                return False, "None arm returns %s" % show(b)
            return False, "unrecognised arm %s" % show(p)
        return (good == 2), "match with %d recognised arms" % good
    return False, "unrecognised status decoding shape (accepted: unwrap_or / unwrap_or_else / match Some-None): %s" % show(e)[:200]


def eval_num(e, disc):
    e = unwrap(e)
    k = e.get("k")
    if k == "lit" and isinstance(e["v"], int) and not isinstance(e["v"], bool):
        return e["v"]
    if k == "cast":
        return eval_num(e["e"], disc)
    if k in ("un", "ref") and (k == "ref" or e.get("op") == "Deref"):
        return eval_num(e["e"], disc)
    if k == "path" and e["res"].get("name") == "self":
        return disc
    return None


CONST_LISTS = {}    # named constant arrays of unit enum variants: path -> [variant paths] (filled per configuration from the HIR of the constants)


def load_const_lists(F):
    CONST_LISTS.clear()
    for p, b in F.hir.items():
        if "Const" in str(b.get("kind")):
            x = unwrap(b["body"])
            while x.get("k") in ("ref", "un"):
                x = unwrap(x["e"])
            if x.get("k") == "array" and x.get("es") and all(unwrap(el).get("k") == "path" and unwrap(el).get("ctor") for el in x["es"]):
                CONST_LISTS[p] = [unwrap(el)["ctor"] for el in x["es"]]


class _Return(Exception):
    def __init__(self, v):
        self.v = v


def _eval_variant(e, variant):
    """The enum value an expression denotes: `self` / `*self` is the variant under evaluation, a unit-variant path is itself."""
    e = unwrap(e)
    while e.get("k") in ("un", "ref") and (e.get("k") == "ref" or e.get("op") == "Deref"):
        e = unwrap(e["e"])
    if e.get("k") == "path" and e["res"].get("name") == "self":
        return variant
    if e.get("k") == "path" and e.get("ctor"):
        return e["ctor"]
    return None


def eval_bool(e, variant, disc):
    """Evaluate a pure boolean expression over `self` for one concrete variant; None = not understood."""
    try:
        return _eval_bool(e, variant, disc)
    except _Return as r:
        return r.v


def _eval_bool(e, variant, disc):
    e = unwrap(e)
    k = e.get("k")
    if k == "lit" and isinstance(e["v"], bool):
        return e["v"]
    if k in ("blockx", "block"):
        blk = e["b"] if k == "blockx" else e
        for st in blk.get("stmts", []):
            if st.get("k") in ("semi", "expr"):
                x = unwrap(st["e"])
                if x.get("k") in ("if", "ret", "blockx", "block"):
                    if _eval_bool(x, variant, disc) is None and x.get("k") != "if":
                        return None
                    continue
            return None         # a statement this evaluator does not understand
        return _eval_bool(blk["expr"], variant, disc) if "expr" in blk else "unit"
    if k == "ret":
        v = _eval_bool(e["e"], variant, disc) if "e" in e else None
        if v is None:
            raise _Return(None)
        raise _Return(v)
    if k == "if" and unwrap(e["c"]).get("k") != "letx":
        c = _eval_bool(e["c"], variant, disc)
        if c is None or c == "unit":
            raise _Return(None)
        if c:
            return _eval_bool(e["t"], variant, disc)
        return _eval_bool(e["e"], variant, disc) if "e" in e else "unit"
    if k == "bin" and e["op"] in ("Eq", "Ne") and _eval_variant(e["a"], variant) is not None and _eval_variant(e["b"], variant) is not None:
        same_ = _eval_variant(e["a"], variant) == _eval_variant(e["b"], variant)
        return same_ if e["op"] == "Eq" else not same_
    if k == "un" and e.get("op") == "Not":
        v = _eval_bool(e["e"], variant, disc)
        return None if v is None else (not v)
    if k == "mcall" and e.get("name") == "contains" and str(e.get("callee") or "").endswith("::contains") and len(e.get("args", [])) == 1:
        # `CONST_LIST.contains(self)` with a named constant array of unit variants: membership of this variant in the list
        r, a = unwrap(e["recv"]), unwrap(e["args"][0])
        while r.get("k") in ("ref", "un"):
            r = unwrap(r["e"])
        while a.get("k") in ("ref", "un"):
            a = unwrap(a["e"])
        lst = CONST_LISTS.get(r.get("res", {}).get("path")) if r.get("k") == "path" else None
        if lst is not None and a.get("k") == "path" and a["res"].get("name") == "self":
            return variant in lst
        return None
    if k == "bin" and e["op"] in ("And", "Or"):
        a, b = _eval_bool(e["a"], variant, disc), _eval_bool(e["b"], variant, disc)
        if a is None or b is None:
            return None
        return (a and b) if e["op"] == "And" else (a or b)
    if k == "bin" and e["op"] in ("Lt", "Le", "Gt", "Ge", "Eq", "Ne"):
        a, b = eval_num(e["a"], disc), eval_num(e["b"], disc)
        if a is None or b is None:
            return None
        return {"Lt": a < b, "Le": a <= b, "Gt": a > b, "Ge": a >= b, "Eq": a == b, "Ne": a != b}[e["op"]]
    if k == "match":
        s = unwrap(e["scrut"])
        while s.get("k") in ("un", "ref"):
            s = unwrap(s["e"])
        if not (s.get("k") == "path" and s["res"].get("name") == "self"):
            return None
        for arm in e["arms"]:
            p = arm["pat"]
            while p["k"] in ("pref", "pderef"):
                p = p["p"]
            pats = p["pats"] if p["k"] == "por" else [p]
            hit = False
            for q in pats:
                while q["k"] in ("pref", "pderef"):
                    q = q["p"]
                if q["k"] in ("wild", "bind"):
                    hit = True
                elif q["k"] == "pexpr" and q.get("path"):
                    hit = hit or q["path"] == variant
                else:
                    return None
            if hit:
                if "guard" in arm:
                    g = _eval_bool(arm["guard"], variant, disc)
                    if g is None:
                        return None
                    if not g:
                        continue
                return _eval_bool(arm["body"], variant, disc)
        return None
    return None


def true_set_eval(e, variants):
    """variants: {path: discriminant}. Returns (set of variants mapped to true, reason)."""
    out = set()
    for v, d in variants.items():
        r = eval_bool(e, v, d)
        if r is None:
            return None, "unrecognised is_success shape (accepted: match / matches! on self with boolean arms, numeric comparisons of `*self as <int>` with literals, !, &&, ||): %s" % show(e)[:160]
        if r:
            out.add(v)
    return out, ""


def true_set(e, all_variants):
    """Set of variants for which a `match self {..=>true, ..=>false}` (matches!) yields true."""
    neg = False
    while e.get("k") == "un" and e.get("op") == "Not":
        neg = not neg
        e = unwrap(e["e"])
    if e.get("k") != "match":
        return None, "unrecognised is_success shape (expected match/matches! on self): %s" % show(e)[:160]
    s = unwrap(e["scrut"])
    while s.get("k") in ("un", "ref"):
        s = unwrap(s["e"])
    if not (s.get("k") == "path" and s["res"].get("name") == "self"):
        return None, "is_success does not match on self: %s" % show(s)
    remaining = list(all_variants)
    tset = set()
    for arm in e["arms"]:
        if "guard" in arm:
            return None, "guarded arm in is_success"
        b = unwrap(arm["body"])
        if not (b.get("k") == "lit" and isinstance(b["v"], bool)):
            return None, "arm body is not a boolean literal: %s" % show(b)
        val = b["v"] != neg
        p = arm["pat"]
        while p["k"] in ("pref", "pderef"):
            p = p["p"]
        pats = p["pats"] if p["k"] == "por" else [p]
        covered = []
        for q in pats:
            while q["k"] in ("pref", "pderef"):
                q = q["p"]
            if q["k"] == "wild" or q["k"] == "bind":
                covered = list(remaining)
                break
            if q["k"] == "pexpr" and q.get("path"):
                covered.append(q["path"])
            else:
                return None, "unrecognised pattern %s" % show(q)
        for c in covered:
            if c in remaining:
                remaining.remove(c)
                if val:
                    tset.add(c)
    return tset, ""
