"""C13 - printer-uri never leaks credentials or query (R-TAINT-URI).

(1) In `canonicalize_uri` every path's result is `Uri::builder()...build()` where the builder receives a
constant IPP scheme, `uri.path()` as path-and-query, and an authority assembled only from
`authority.host()` and `authority.port_u16()`; the uri parameter and its authority may be touched only
through the accessor whitelist. (2) Every `printer-uri` attribute constructed anywhere in the crate takes
its value from `canonicalize_uri(..)` on every path. One reviewed exception: the builder-failure fallback."""
from ..facts import calls, site, unwrap, walk
from ..symx import TooManyPaths, closure_paths, cshow, paths_of, tshow
from ..terms import display_norm, flatten_fmt, is_call, mentions, opt_polarity, subterms

FN = "ipp::util::canonicalize_uri"
PRINTER_URI = "ipp::attribute::IppAttribute::PRINTER_URI"
ALLOWED_URI = {"http::Uri::path", "http::Uri::authority"}
ALLOWED_AUTH = {"http::uri::Authority::host", "http::uri::Authority::port_u16", "http::uri::Authority::port"}
NEUTRAL = {"http::Uri::builder", "http::uri::Builder::scheme", "http::uri::Builder::path_and_query", "http::uri::Builder::authority",
           "http::uri::Builder::build", "std::string::String::as_str", "std::result::Result::<T, E>::unwrap_or_else",
           "std::option::Option::<T>::is_some", "std::option::Option::<T>::is_none", "std::option::Option::<T>::unwrap",
           "<assign>", "<enter>", "http::uri::Port::<T>::as_u16", "std::string::ToString::to_string", "<let>",
           "std::result::Result::<T, E>::unwrap_or", "std::result::Result::<T, E>::unwrap", "std::result::Result::<T, E>::expect"}


def is_uri_param(t):
    return t == ("var", "uri")


def derived_kind(t):
    """'uri' if t is the uri parameter, 'auth' if t is its authority object, else None."""
    t = display_norm(t) if not (isinstance(t, tuple) and t[0] == "call" and t[1] in ("std::string::ToString::to_string",)) else t
    if is_uri_param(t):
        return "uri"
    if isinstance(t, tuple) and t[0] == "proj" and is_call(t[1], "http::Uri::authority") and is_uri_param(t[1][2][0]):
        return "auth"
    if is_call(t, "std::option::Option::<T>::unwrap", "std::option::Option::<T>::expect") and is_call(t[2][0], "http::Uri::authority"):
        return "auth"
    return None


def host_term(t):
    t = display_norm(t)
    return is_call(t, "http::uri::Authority::host") and derived_kind(t[2][0]) == "auth"


def port_term(t):
    t = display_norm(t)
    if isinstance(t, tuple) and t[0] == "proj" and t[2].endswith("Some.0"):
        t = t[1]
    if is_call(t, "std::option::Option::<T>::unwrap"):
        t = t[2][0]
    if is_call(t, "http::uri::Port::<T>::as_u16"):
        t = t[2][0]
        if isinstance(t, tuple) and t[0] == "proj":
            t = t[1]
    return is_call(t, "http::uri::Authority::port_u16", "http::uri::Authority::port") and derived_kind(t[2][0]) == "auth"


def builder_chain(t):
    """Unroll Uri::builder().a(x).b(y)... -> [(method, arg)], or None."""
    steps = []
    while is_call(t) and t[1].startswith("http::uri::Builder::") and t[1] != "http::uri::Builder::build":
        steps.append((t[1].split("::")[-1], t[2][1] if len(t[2]) > 1 else None))
        t = t[2][0]
    if is_call(t, "http::Uri::builder"):
        return list(reversed(steps))
    return None


def check(run, views, tier):
    run.explanation = (
        "R-TAINT-URI: (1) path-wise term analysis of canonicalize_uri: the value handed to Builder::build is unrolled "
        "into (scheme, path_and_query, authority) arguments; scheme must be the constant ipp/ipps, the path must be "
        "uri.path(), the authority must flatten to host() or host() ':' port_u16(); every call whose receiver is the uri "
        "parameter or its authority must be on the accessor whitelist {path, authority, host, port_u16, port} - anything "
        "else (to_string, as_str, path_and_query, query, ...) is a leak path. (2) who-may-construct: every IppAttribute::new "
        "whose name is the printer-uri constant, anywhere in the crate, gets IppValue::Uri(canonicalize_uri(..).to_string()) "
        "on every path of its function.")
    run.trusted = ["http::Uri / Authority accessor semantics (host() excludes user-info, path() excludes the query)"]
    run.not_decided = ["reachability of the builder-failure fallback inside http::uri::Builder::build (reviewed exception)"]
    for cfg, crates in views.items():
        run.cfg = cfg
        F = crates["ipp"]
        from ..engine import include as _inc
        from . import c10 as _c10
        _inc(run, _c10, {cfg: {"ipp": F}}, tier, "R-BUILDERS")
        b = F.body(FN)
        if b is None:
            run.anchor_lost("R-TAINT-URI", FN)
            continue
        paths = paths_of(b)
        run.floor("R-TAINT-URI", len(paths), 2, "paths through " + FN)
        for p in paths:
            pc = " && ".join(cshow(c) for c in p.conds)[:200]
            st = site(b)
            ret = p.ret
            fallback = None
            if is_call(ret, "std::result::Result::<T, E>::unwrap_or_else", "std::result::Result::<T, E>::unwrap_or"):
                fallback = ret[2][1]
                ret = ret[2][0]
            elif is_call(ret, "std::result::Result::<T, E>::unwrap", "std::result::Result::<T, E>::expect"):
                ret = ret[2][0]
            if not is_call(ret, "http::uri::Builder::build"):
                run.ob("R-TAINT-URI", "result is Uri::builder()..build() [%s]" % pc, False, "path returns %s" % tshow(p.ret)[:200], st,
                       key="R-TAINT-URI|%s|not-built" % FN)
                continue
            chain = builder_chain(ret[2][0])
            if chain is None:
                run.ob("R-TAINT-URI", "builder chain starts at Uri::builder() [%s]" % pc, False, tshow(ret)[:200], st,
                       key="R-TAINT-URI|%s|builder-origin" % FN)
                continue
            args = {}
            for m, a in chain:
                args.setdefault(m, []).append(a)
            sch = args.get("scheme", [None])[-1]
            run.ob("R-TAINT-URI", "scheme is the constant ipp/ipps [%s]" % pc, sch is not None and sch[0] == "lit" and sch[1] in ("ipp", "ipps"),
                   "scheme argument is %s" % tshow(sch), st, key="R-TAINT-URI|%s|scheme" % FN)
            pq = display_norm(args.get("path_and_query", [None])[-1])
            run.ob("R-TAINT-URI", "path-and-query is uri.path() [%s]" % pc, is_call(pq, "http::Uri::path") and is_uri_param(pq[2][0]),
                   "path argument is %s (the query must not be carried over)" % tshow(pq)[:160], st, key="R-TAINT-URI|%s|path" % FN)
            auth = args.get("authority", [None])[-1]
            has_auth_cond = any(c[0] == "match" and is_call(c[1], "http::Uri::authority") and c[3] is True for c in p.conds) or \
                any(derived_kind(x) == "auth" for c in p.conds for x in subterms(c[1]))
            if auth is None:
                run.ob("R-TAINT-URI", "authority omitted only when the uri has none [%s]" % pc, not has_auth_cond,
                       "a uri with an authority is rebuilt without host", st, key="R-TAINT-URI|%s|authority-dropped" % FN)
            else:
                fl = flatten_fmt(auth)
                shape = [x[0] for x in fl]
                ok_host_only = len(fl) == 1 and fl[0][0] == "a" and host_term(fl[0][1])
                ok_host_port = len(fl) == 3 and shape == ["a", "s", "a"] and host_term(fl[0][1]) and fl[1][1] == ":" and port_term(fl[2][1])
                port_cond = None
                for c in p.conds:
                    if c[0] == "match" and is_call(c[1], "http::uri::Authority::port_u16", "http::uri::Authority::port"):
                        port_cond = opt_polarity(c)
                    if c[0] == "if" and is_call(c[1], "std::option::Option::<T>::is_some") and is_call(c[1][2][0], "http::uri::Authority::port_u16", "http::uri::Authority::port"):
                        port_cond = c[2]
                run.ob("R-TAINT-URI", "authority = host() or host():port_u16() [%s]" % pc, ok_host_only or ok_host_port,
                       "authority argument is %s" % tshow(auth)[:200], st, key="R-TAINT-URI|%s|authority-term" % FN)
                if ok_host_port:
                    run.ob("R-TAINT-URI", "port kept exactly when given [%s]" % pc, port_cond is True, "port appended on a path where no explicit port was found", st,
                           key="R-TAINT-URI|%s|port-iff" % FN)
                if ok_host_only:
                    run.ob("R-TAINT-URI", "port omitted exactly when absent [%s]" % pc, port_cond is not True, "explicit port dropped", st,
                           key="R-TAINT-URI|%s|port-dropped" % FN)
            # accessor whitelist over the whole trace of the path (fallback closure handled separately)
            for t in p.trace:
                if not is_call(t) or t[1] in NEUTRAL or not t[2]:
                    continue
                recv_kind = derived_kind(t[2][0])
                if recv_kind == "uri" and t[1] not in ALLOWED_URI:
                    run.ob("R-TAINT-URI", "uri touched through %s" % t[1], False,
                           "call %s on the target uri is outside the accessor whitelist %s (possible user-info/query leak)" % (t[1], sorted(ALLOWED_URI)),
                           site(b, t[3]), key="R-TAINT-URI|%s|uri-accessor|%s" % (FN, t[1]))
                elif recv_kind == "auth" and t[1] not in ALLOWED_AUTH:
                    run.ob("R-TAINT-URI", "authority touched through %s" % t[1], False,
                           "call %s on the uri's authority is outside the accessor whitelist %s (user-info would leak)" % (t[1], sorted(ALLOWED_AUTH)),
                           site(b, t[3]), key="R-TAINT-URI|%s|authority-accessor|%s" % (FN, t[1]))
                elif recv_kind in ("uri", "auth"):
                    run.ob("R-TAINT-URI", "whitelisted accessor %s" % t[1], True)
            if fallback is not None:
                key = "R-TAINT-URI|%s|fallback|uri.to_owned()" % FN
                reason = run.excepted(key)
                body_ok = False
                if fallback[0] == "closure":
                    cp = closure_paths(b, fallback)
                    body_ok = len(cp) == 1 and is_uri_param(display_norm(cp[0].ret))
                run.ob("R-TAINT-URI", "builder-failure fallback is the reviewed exception", bool(reason) and body_ok,
                       "fallback %s is not the reviewed `uri.to_owned()` exception" % tshow(fallback)[:120], st, key=key + "|unreviewed")
        # (2) every printer-uri attribute in the crate
        n_sites = 0
        for path, body in F.hir.items():
            if "::tests::" in path or body["kind"] not in ("Fn", "AssocFn"):
                continue
            # every function that names the printer-uri attribute (directly in IppAttribute::new or handed to a helper that is judged inlined)
            from ..facts import walk as _walk
            relevant = any((n_.get("k") == "path" and n_.get("res", {}).get("path") == PRINTER_URI) or (n_.get("k") == "lit" and n_.get("v") == "printer-uri")
                           for n_ in _walk(body["body"]))
            if not relevant:
                continue
            try:
                ps = paths_of(body)
            except TooManyPaths:
                run.ob("R-TAINT-URI", "printer-uri site analysable in %s" % path, False, "too many paths", site(body))
                continue
            for p in ps:
                for t in p.trace:
                    if not is_call(t, "ipp::attribute::IppAttribute::new"):
                        continue
                    name = t[2][0]
                    is_pu = (name == ("def", PRINTER_URI)) or (name == ("lit", "printer-uri"))
                    if not is_pu:
                        continue
                    n_sites += 1
                    v = t[2][1]
                    ok = v[0] == "ctor" and v[1] == "ipp::value::IppValue::Uri" and v[2] and is_call(display_norm(v[2][0]), FN)
                    run.ob("R-TAINT-URI", "printer-uri in %s = canonicalize_uri(..)" % path, ok,
                           "printer-uri value is %s on path [%s]" % (tshow(v)[:200], " && ".join(cshow(c) for c in p.conds)[:200]),
                           site(body, t[3]), key="R-TAINT-URI|%s|printer-uri-source" % path)
        run.floor("R-TAINT-URI", n_sites, 1, "printer-uri attribute constructions")
        # the canonical value reaches the wire whole: encoder layout / length prefix of the string kinds (codec rules)
        from .. import codecrules as cr
        cr.r_layout(run, F, cr.layout_table(), external=True, casts=False)
