"""C02 - parsers are total on arbitrary bytes: no panic, abort, overflow or hang
(R-GUARD, R-DISPATCH, R-LOOP, R-NOREC, R-DEPTH, R-READEXACT length clause)."""
import os

from .. import guardrules as gr
from .. import readerrules as rr
from ..engine import VERIF, load_json


def check(run, views, tier):
    run.explanation = (
        "R-GUARD: for every function in the call-graph cone of the parse roots (both parsers, IppValue::parse) and of what is then "
        "done to a result (Display, to_bytes, to_tag, the value iterator, message encoders), each syntactic path is replayed in "
        "evaluation order against tables/panic.json: a lower bound on the remaining bytes of each buffer is raised by the length "
        "comparisons the path assumes (==, !=, <, <=, >, >=, match on the length, remaining(), is_empty; literal or symbolic) and "
        "lowered by each read; every fixed-width read, advance, slice, Vec::remove / index, unwrap / expect, unsigned subtraction "
        "and explicit panic must be justified by that state. Functions are verified modularly: parameters start with bound 0. "
        "R-DISPATCH: all 256 tag bytes classified. R-LOOP: every loop consumes a tag byte per iteration or iterates a finite "
        "in-memory container; recursion outside the parser is structural. R-NOREC: no call cycle in the parse cone. R-DEPTH: the "
        "collection stack grows only under a constant limit K <= 128 whose violation is an error; thorough tier: K times the sum of the "
        "object-code frame sizes of every monomorphised function that mentions the recursive value type (an over-approximation of one "
        "nesting level of any of the recursive families) plus 2 KiB fits in 1 MiB.")
    run.trusted = ["tables/panic.json lists the panicking preconditions of bytes 1.x / std used here", "third-party code does not panic on arguments satisfying its documented preconditions",
                   "read_exact allocates nothing itself; one element is at most 64 KiB (u16 length)"]
    run.not_decided = ["panics inside third-party functions on precondition-satisfying arguments", "allocator failure",
                       "futures_executor::block_on re-entrancy when an async payload is read through the blocking interface inside an executor"]
    T = load_json(os.path.join(VERIF, "tables", "panic.json"))
    for cfg, crates in views.items():
        run.cfg = cfg
        F = crates["ipp"]
        g = gr.call_graph(F)
        parse_cone = gr.cone(g, gr.PARSE_ROOTS)
        inspect_cone = gr.cone(g, gr.INSPECT_ROOTS)
        for r in gr.PARSE_ROOTS + gr.INSPECT_ROOTS:
            if r not in F.hir and not ("Async" in r and not rr.async_on(F)):
                run.anchor_lost("R-GUARD", r)
        bodies = parse_cone | inspect_cone
        n_fn, counts = gr.r_guard(run, F, T, bodies)
        for imp in F.impls:
            if imp.get("trait") in ("std::ops::Drop", "core::ops::Drop", "std::ops::drop::Drop") and str(imp.get("self", "")).startswith("ipp::") and \
                    not str(imp.get("self", "")).startswith("ipp::client"):
                run.ob("R-GUARD", "no user Drop impl on the types a parser returns", False,
                       "impl Drop for %s: dropping a parsed message runs user code (it can block on the source, panic, or re-enter an executor)" % imp["self"],
                       "%s:%s" % (imp["file"], imp["line"]), key="R-GUARD|drop-impl|%s" % imp["self"])
        from .c15 import check_alloc
        check_alloc(run, F)          # abort by memory exhaustion: constant pre-allocations per token stay within budget
        run.floor("R-GUARD", n_fn, 15, "functions in the parse/inspect cones")
        # vacuity guards: every call of a precondition-carrying library function that is present in the cones must have been judged
        # (a refactoring may remove such calls altogether - `remove(0)` written as a fallible conversion - and then there is nothing to judge)
        from ..facts import callee as _callee, walk as _walk
        present = {"buffer-read": 0, "vec-index": 0}
        for fn in bodies:
            hb = F.hir.get(fn)
            if hb is None or hb.get("from_expansion"):
                continue
            for x in _walk(hb["body"]):
                c = _callee(x)
                if c in T["buf_fixed"]:
                    present["buffer-read"] += 1
                elif c in T["index"]:
                    present["vec-index"] += 1
        run.floor("R-GUARD", counts.get("buffer-read", 0), min(8, present["buffer-read"]), "fixed-width buffer reads (of %d present)" % present["buffer-read"])
        run.floor("R-GUARD", counts.get("vec-index", 0), min(1, present["vec-index"]), "guarded Vec::remove (of %d present)" % present["vec-index"])
        gr.r_norec(run, F, g, parse_cone)
        ni, no = gr.r_loop(run, F, g, bodies, inspect_cone)
        run.floor("R-LOOP", ni, 2, "iterator loops")
        rr.r_stop_onlyexit(run, F)      # contributes the drive-loop progress clause (R-LOOP) and the exits
        rr.r_dispatch(run, F)
        rr.r_readexact(run, F)
        K = gr.r_depth(run, F, T)
        run.meta.setdefault("coverage_extra", {})["guard_sites"] = counts
        if tier == "thorough" and cfg == sorted(views)[0]:
            # O: object-code frame sizes -> stack budget of the recursive drop / clone / fmt / encode families
            from .. import extract
            try:
                frames = extract.frame_sizes()
            except extract.ExtractError as e:
                run.ob("R-DEPTH", "frame sizes available", False, str(e)[:300], key="R-DEPTH|frames-unavailable")
                frames = []
            val = [(n, s) for n, s in frames if "ipp::value::IppValue" in n]
            total = sum(s for _, s in val)
            if frames and K is not None:
                need = K * (total + 2048)
                run.ob("R-DEPTH", "stack budget: K x (sum of all %d frames that mention IppValue + 2 KiB) <= 1 MiB" % len(val), need <= T["stack_budget_bytes"],
                       "K=%d, frames sum to %d bytes: %d bytes needed, budget %d" % (K, total, need, T["stack_budget_bytes"]), key="R-DEPTH|stack-budget")
                run.meta["coverage_extra"]["frame_sizes"] = {"functions_total": len(frames), "functions_mentioning_IppValue": len(val), "sum_bytes": total, "K": K,
                                                              "largest": sorted(val, key=lambda x: -x[1])[:6]}
            run.floor("R-DEPTH", len(val), 50, "monomorphised functions mentioning IppValue in the object code")
