"""C06 - parsing consumes exactly the message; fragmentation never changes it (R-READEXACT, R-STOP)."""
from .. import readerrules as rr


def check(run, views, tier):
    run.explanation = (
        "R-READEXACT: who-may-touch analysis of the readers' source field over the resolved HIR - every use of `self.inner` "
        "is classified by its consumer: only read_exact (std / futures-util) on a buffer that is exactly the wire element "
        "([u8; 1|2|4] or vec![0; len] with len a u16 widening at every call site), the move-out in into_inner, and the hand-over "
        "to IppPayload::new[_async]; the reader structs have the source as their only field; no buffering / partial-read API "
        "appears in reader.rs or parser.rs. R-STOP: on the single successful path of the drive loops nothing touches the reader "
        "after the end-of-attributes edge, and parse / parse_parts hand the same reader (its remaining stream) on.")
    run.trusted = ["std::io::Read::read_exact / futures_util::AsyncReadExt::read_exact: fragmentation, short reads, Interrupted"]
    run.not_decided = ["read_exact's own handling of short and Interrupted reads (std / futures-util)", "the payload's pass-through (C08)"]
    for cfg, crates in views.items():
        run.cfg = cfg
        F = crates["ipp"]
        n = rr.r_readexact(run, F)
        run.floor("R-READEXACT", n, 4 if rr.async_on(F) else 2, "calls on the readers' source")
        rr.r_stop_onlyexit(run, F)
        # "consumes exactly the bytes ... through the end-of-attributes tag": every value tag is followed by its name and value elements
        # (R-TOKEN), every tag byte is classified as the registry says (R-DISPATCH), and the parser cannot abort in its trace!() formatting
        rr.r_token(run, F)
        rr.r_dispatch(run, F)
        rr.r_trace_display(run, F)
        rr.r_propagate(run, F)
        rr.r_reject(run, F)        # a new rejection aborts the parse: nothing of the message or its payload is delivered
        # "delivered unmodified as the document payload": the payload adaptor forwards reads unchanged (C08's R-FORWARD)
        from ..engine import include
        from . import c08
        include(run, c08, {cfg: crates}, tier, "R-FORWARD|")
        # the clients hand the whole response stream to the parser (the clause of R-HTTPSHAPE that concerns the payload)
        from ..engine import Only
        from . import c11
        view = Only(run, "|parse-source")
        if "async-client" in F.features:
            c11.check_send(view, F, c11.ASYNC, "async")
        if "client" in F.features:
            c11.check_send(view, F, c11.BLOCK, "blocking")
