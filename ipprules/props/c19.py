"""C19 - attribute container and value traversal behave as a simple ordered model
(R-CONTAINER, R-ORDERED-CONTAINERS).

Path-wise extraction of `IppAttributes::add` (first-match search in message order, insert keyed by the
attribute's own name = replace, else new group appended at the end), `groups_of` (order-preserving
filter), type facts (BTreeMap for collections, Vec for sets and groups), a crate-wide who-may-call on
reordering operations of the group / value lists, and the value iterator: every Some path advances the
index by exactly one and yields the element at the *old* index, None paths leave it unchanged, the
scalar arm yields exactly once."""
from ..facts import show, site, unwrap, walk
from ..symx import all_calls, closure_paths, cshow, paths_of, simp, tshow
from ..terms import display_norm, is_call, is_map_call, mentions, opt_polarity, same, subterms

ADD = "ipp::attribute::IppAttributes::add"
GROUPS_OF = "ipp::attribute::IppAttributes::groups_of"
NEXT = "<ipp::value::IppValueIterator<'a> as std::iter::Iterator>::next"
INTO_ITER = "<&'a ipp::value::IppValue as std::iter::IntoIterator>::into_iter"
REORDER = {"insert", "sort", "sort_by", "sort_by_key", "sort_unstable", "sort_unstable_by", "sort_unstable_by_key", "sort_by_cached_key", "reverse",
           "swap", "retain", "retain_mut", "dedup", "dedup_by", "dedup_by_key", "rotate_left", "rotate_right", "swap_remove", "remove", "truncate",
           "drain", "clear", "splice", "split_off", "select_nth_unstable", "fill", "fill_with"}
ORDERED_TYPES = ("std::vec::Vec<ipp::attribute::IppAttributeGroup>", "std::vec::Vec<ipp::value::IppValue>",
                 "[ipp::attribute::IppAttributeGroup]", "[ipp::value::IppValue]")


def groups_list(t):
    """t denotes self's group list (through groups_mut()/groups()/field)."""
    t = display_norm(t)
    if is_call(t, "ipp::attribute::IppAttributes::groups_mut", "ipp::attribute::IppAttributes::groups") and t[2][0] == ("var", "self"):
        return True
    return t == ("field", ("var", "self"), "groups")


def tag_eq_closure(body, clo, param):
    """closure |g| g.tag() == <param>  (either order, method or field)."""
    if clo[0] != "closure":
        return False
    cps = closure_paths(body, clo)
    if len(cps) != 1:
        return False
    r = cps[0].ret
    if r[0] != "bin" or r[1] != "Eq":
        return False
    sides = [r[2], r[3]]
    has_param = any(s == ("var", param) for s in sides)
    has_tag = any((is_call(s, "ipp::attribute::IppAttributeGroup::tag") or (s[0] == "field" and s[2] == "tag")) for s in sides)
    return has_param and has_tag


def tag_eq_term(r, param):
    if not (isinstance(r, tuple) and r[0] == "bin" and r[1] == "Eq"):
        return False
    sides = [r[2], r[3]]
    return any(s == ("var", param) for s in sides) and any((is_call(s, "ipp::attribute::IppAttributeGroup::tag") or (s[0] == "field" and s[2] == "tag")) for s in sides)


def tag_select_closure(body, clo, param):
    """closure |g| (g.tag == <param>).then_some(g)  /  if g.tag == param { Some(g) } else { None }: filter_map that is a filter."""
    if clo[0] != "closure":
        return False
    g = ("var", "$element")
    cps = closure_paths(body, clo, [g])
    if len(cps) != 2:
        return False
    seen = set()
    for p in cps:
        cs = [c for c in p.conds if c[0] in ("if", "guard")]
        if len(cs) != 1 or len(p.conds) != 1 or not tag_eq_term(cs[0][1], param):
            return False
        if cs[0][2] is True and p.ret == ("ctor", "std::prelude::v1::Some", [g]):
            seen.add(True)
        elif cs[0][2] is False and p.ret[0] == "ctor" and p.ret[1].endswith("::None"):
            seen.add(False)
    return seen == {True, False}


def check_add(run, F, prefix="R-CONTAINER"):
    b = F.body(ADD)
    if b is None:
        run.anchor_lost(prefix, ADD)
        return
    tag_p, attr_p = b["params"][1].get("name"), b["params"][2].get("name")
    paths = paths_of(b)
    run.floor(prefix, len(paths), 2, "paths through " + ADD)
    found = {True: 0, False: 0}
    for p in paths:
        pc = " && ".join(cshow(c) for c in p.conds)[:200]
        calls = [t for t, _ in all_calls(p)]
        # the search
        hit = None
        for c in p.conds:
            if c[0] == "match" and is_call(c[1], "std::iter::Iterator::find", "std::iter::Iterator::position"):
                f = c[1]
                src = f[2][0]
                ok_src = is_call(src, "core::slice::<impl [T]>::iter_mut", "core::slice::<impl [T]>::iter") and groups_list(src[2][0])
                ok_clo = tag_eq_closure(b, f[2][1], tag_p)
                run.ob(prefix, "add: first-match search over the group list in message order [%s]" % ("hit" if "!" not in c[2] else "miss"), ok_src and ok_clo,
                       "search is %s" % tshow(f)[:200], site(b), key="%s|%s|search" % (prefix, ADD))
                hit = opt_polarity(c)
                hit_group = ("proj", f, "Some.0")
        if hit is None:
            # the search written as a loop: `for g in groups.iter_mut() { if g.tag == tag { ..; return } }` - found inside the loop (first match, in
            # message order), not found when the loop ran to its end with the test false for every group
            inl = [c for c in p.conds if c[0] == "if" and is_call(c[1], "<in-loop>") and c[2] is True and c[1][2] and
                   is_call(c[1][2][0], "core::slice::<impl [T]>::iter_mut", "core::slice::<impl [T]>::iter") and groups_list(c[1][2][0][2][0])]
            eqs = [c for c in p.conds if c[0] == "if" and c[2] is True and tag_eq_term(c[1], tag_p) and any(isinstance(x, tuple) and x[0] == "elem" for x in subterms(c[1]))]
            if inl and eqs:
                hit, hit_group = True, ("elem", inl[-1][1][2][0])
                run.ob(prefix, "add: first-match search over the group list in message order [hit]", True, key="%s|%s|search" % (prefix, ADD))
            else:
                loops = [t for t in p.trace if is_call(t, "<for>") and is_call(t[2][0], "core::slice::<impl [T]>::iter_mut", "core::slice::<impl [T]>::iter") and groups_list(t[2][0][2][0])]
                if len(loops) == 1 and loops[0][3].get("paths") and all(
                        any(c[0] == "if" and c[2] is False and tag_eq_term(c[1], tag_p) for c in bp.conds) and not [x for x in bp.trace if is_call(x) and is_map_call(x[1])]
                        for bp in loops[0][3]["paths"]):
                    hit = False
                    run.ob(prefix, "add: first-match search over the group list in message order [miss]", True, key="%s|%s|search" % (prefix, ADD))
        other_lookups = [t for t in calls if is_call(t) and t[1].split("::")[-1] in ("last", "last_mut", "rfind", "rposition", "rev", "max_by_key", "min_by_key", "first",
                                                                                        "first_mut", "nth") and
                         any(groups_list(x) for x in subterms(t))]
        run.ob(prefix, "add: no second lookup strategy on the group list", not other_lookups,
               "additional group lookup %s (the first existing group of the kind must receive the attribute)" % [tshow(t)[:100] for t in other_lookups], site(b),
               key="%s|%s|extra-lookup" % (prefix, ADD))
        if hit is None:
            run.ob(prefix, "add: path decided by the search", False, "path does not depend on the first-match search [%s]" % pc, site(b),
                   key="%s|%s|no-search" % (prefix, ADD))
            continue
        found[hit] += 1
        inserts = [t for t in calls if is_map_call(t[1])]
        ins = [t for t in inserts if t[1].endswith("::insert")]
        bad = [t for t in inserts if not t[1].endswith("::insert")]
        run.ob(prefix, "add: attribute stored with HashMap::insert (replace by name)", len(ins) == 1 and not bad,
               "map operations on this path: %s (entry/or_insert/try_insert keep the first value)" % [t[1].split("::")[-1] for t in inserts], site(b),
               key="%s|%s|insert" % (prefix, ADD))
        if len(ins) == 1:
            t = ins[0]
            key, val = display_norm(t[2][1]), t[2][2]
            okk = (is_call(key, "ipp::attribute::IppAttribute::name") and key[2][0] == ("var", attr_p)) or key == ("field", ("var", attr_p), "name")   # name() returns the field
            run.ob(prefix, "add: keyed by the attribute's own name", okk and val == ("var", attr_p), "insert(%s, %s)" % (tshow(t[2][1])[:80], tshow(val)[:40]), site(b, t[3]),
                   key="%s|%s|key" % (prefix, ADD))
            recv = t[2][0]
            if hit:
                tgt = recv[2][0] if is_call(recv, "ipp::attribute::IppAttributeGroup::attributes_mut") else None
                if tgt is None and isinstance(recv, tuple) and recv[0] == "field" and recv[2] == "attributes":
                    tgt = recv[1]           # `group.attributes` is what attributes_mut() hands out
                okr = tgt is not None and ((tgt[0] == "proj" and is_call(tgt[1], "std::iter::Iterator::find")) or (tgt[0] == "elem" and tgt == hit_group) or
                                           (tgt[0] == "index" and groups_list(tgt[1]) and tgt[2][0] == "proj" and is_call(tgt[2][1], "std::iter::Iterator::position")))
                run.ob(prefix, "add(hit): inserted into the found group", okr, "target %s" % tshow(recv)[:120], site(b, t[3]), key="%s|%s|hit-target" % (prefix, ADD))
                pushes = [c for c in calls if c[1].endswith("::push") or c[1].endswith("Vec::<T, A>::insert")]
                run.ob(prefix, "add(hit): group list unchanged", not pushes, [tshow(c)[:80] for c in pushes], site(b), key="%s|%s|hit-push" % (prefix, ADD))
            else:
                newg = recv[2][0] if is_call(recv, "ipp::attribute::IppAttributeGroup::attributes_mut") else None
                if newg is None and isinstance(recv, tuple) and recv[0] == "field" and recv[2] == "attributes":
                    newg = recv[1]          # `new_group.attributes` is what attributes_mut() hands out
                if isinstance(newg, tuple) and newg[0] == "index" and groups_list(newg[1]) and isinstance(newg[2], tuple) and newg[2][0] == "bin" and newg[2][1] == "Sub" and \
                        is_call(newg[2][2], "std::vec::Vec::<T, A>::len") and groups_list(newg[2][2][2][0]) and newg[2][3] == ("lit", 1):
                    # push(new group) first, then `groups[groups.len() - 1]`: the element just appended
                    pushed = [c for c in calls if c[1] == "std::vec::Vec::<T, A>::push" and groups_list(c[2][0])]
                    if len(pushed) == 1 and calls.index(pushed[0]) < calls.index(t):
                        newg = pushed[0][2][1]
                okn = is_call(newg, "ipp::attribute::IppAttributeGroup::new") and newg[2][0] == ("var", tag_p)
                if not okn and newg is None and is_call(recv) and recv[1].endswith("HashMap::<K, V>::new") and not recv[2]:
                    # the new group written as a struct literal around a fresh map: `let mut m = HashMap::new(); m.insert(..); push(IppAttributeGroup { tag, attributes: m })`
                    lit_ = [c for c in calls if c[1] == "std::vec::Vec::<T, A>::push" and groups_list(c[2][0]) and isinstance(c[2][1], tuple) and c[2][1][0] == "ctor" and
                            c[2][1][1] == "ipp::attribute::IppAttributeGroup" and isinstance(c[2][1][2], dict)]
                    if len(lit_) == 1 and lit_[0][2][1][2].get("tag") == ("var", tag_p) and lit_[0][2][1][2].get("attributes") is recv and set(lit_[0][2][1][2]) == {"tag", "attributes"} and \
                            calls.index(t) < calls.index(lit_[0]):
                        okn, newg = True, lit_[0][2][1]
                run.ob(prefix, "add(miss): new group of the requested kind", okn, "target %s" % tshow(recv)[:120], site(b, t[3]), key="%s|%s|miss-group" % (prefix, ADD))
                pushes = [c for c in calls if c[1] == "std::vec::Vec::<T, A>::push"]
                okp = len(pushes) == 1 and groups_list(pushes[0][2][0]) and (pushes[0][2][1] is newg or same(pushes[0][2][1], newg))
                others = [c for c in calls if c[1].startswith("std::vec::Vec::<T, A>::") and c[1].split("::")[-1] in REORDER]
                run.ob(prefix, "add(miss): new group appended at the end", okp and not others, [tshow(c)[:100] for c in pushes + others], site(b),
                       key="%s|%s|miss-push" % (prefix, ADD))
    run.ob(prefix, "add has a hit and a miss path", found[True] >= 1 and found[False] >= 1, str(found), site(b), key="%s|%s|both" % (prefix, ADD))


def check_attribute_ctor(run, F, rule="R-CONTAINER"):
    """IppAttribute::new(name, value) stores exactly that name and that value: the parser keys its map by the wire name and `add` by name()."""
    b = F.body("ipp::attribute::IppAttribute::new")
    if b is None:
        run.anchor_lost(rule, "ipp::attribute::IppAttribute::new")
        return
    for p in paths_of(b):
        r = p.ret
        ok = r[0] == "ctor" and isinstance(r[2], dict)
        if ok:
            nm, val = r[2].get("name"), r[2].get("value")
            def identity_chain(t):
                while is_call(t) and t[1].split("::")[-1] in ("as_ref", "to_owned", "to_string", "into", "from", "borrow", "clone", "as_str") and len(t[2]) == 1:
                    t = t[2][0]
                return t == ("var", b["params"][0].get("name"))
            ok = identity_chain(nm) and val == ("var", b["params"][1].get("name")) and not p.conds
        run.ob(rule, "IppAttribute::new stores the given name and value unchanged", ok,
               "constructor builds %s: a name that is folded, clipped or rewritten no longer matches the key it is filed under" % tshow(r)[:160], site(b),
               key="%s|attribute-new" % rule)


def check_ordered(run, F):
    """who-may-reorder: crate-wide enumeration (by receiver type) of operations on the group / value lists."""
    n_sites = 0
    for path, body in F.hir.items():
        if "::tests::" in path:
            continue
        for n in walk(body["body"]):
            if n.get("k") != "mcall":
                continue
            rty = (n["recv"].get("ty") or "").replace("&mut ", "").replace("&", "")
            adj = n["recv"].get("adj") or []
            tys = [rty] + [a["to"].replace("&mut ", "").replace("&", "") for a in adj]
            if not any(t.startswith(ORDERED_TYPES) for t in tys):
                continue
            n_sites += 1
            name = n["name"]
            if name in REORDER:
                key = "R-ORDERED|%s|%s" % (path, name)
                reason = run.excepted(key)
                if not reason and name == "swap_remove" and n.get("args") and unwrap(n["args"][0]).get("k") == "lit" and unwrap(n["args"][0]).get("v") == 0:
                    # swap_remove(0) and remove(0) differ only in the order of the elements left behind: where remove(0) is sanctioned because
                    # the list has exactly one element (C04's list_or_value clause checks that test), so is swap_remove(0)
                    reason = run.excepted("R-ORDERED|%s|remove" % path)
                run.ob("R-ORDERED", "%s: %s on an ordered message list" % (path, name), bool(reason),
                       "%s.%s(..) can reorder or drop elements of a group/value list: %s" % (show(n["recv"])[:40], name, show(n)[:100]), site(body, n), key=key)
            else:
                run.ob("R-ORDERED", "%s: %s keeps order" % (path, name), True)
    run.floor("R-ORDERED", n_sites, 3, "method calls on group / value lists")


def check(run, views, tier):
    run.explanation = (
        "R-CONTAINER / R-ORDERED-CONTAINERS: path-wise extraction of add / groups_of / IppAttributeGroup::new / the value "
        "iterator from the resolved HIR; type facts for the container types; crate-wide enumeration (by receiver type) of "
        "reordering operations on Vec<IppAttributeGroup> and Vec<IppValue>. The iterator clause uses one arithmetic fold, "
        "(i+1)-1 = i, to show that the set arm yields the element at the index it had before the increment.")
    run.trusted = ["Iterator::find returns the first match", "Vec::push appends", "HashMap::insert replaces", "BTreeMap iterates in key order",
                   "Iterator::nth(i) returns the i-th element"]
    run.not_decided = ["quadratic cost of iter().nth(index) in the collection arm (correct, merely slow)"]
    for cfg, crates in views.items():
        run.cfg = cfg
        F = crates["ipp"]
        check_add(run, F)
        # groups_of
        b = F.body(GROUPS_OF)
        if b is None:
            run.anchor_lost("R-CONTAINER", GROUPS_OF)
        else:
            for p in paths_of(b):
                r = p.ret
                ok = is_call(r, "std::iter::Iterator::filter") and is_call(r[2][0], "core::slice::<impl [T]>::iter") and groups_list(r[2][0][2][0]) and \
                    tag_eq_closure(b, r[2][1], b["params"][1].get("name"))
                if not ok and is_call(r, "std::iter::Iterator::filter_map") and is_call(r[2][0], "core::slice::<impl [T]>::iter") and groups_list(r[2][0][2][0]):
                    ok = tag_select_closure(b, r[2][1], b["params"][1].get("name"))      # filter_map(|g| (g.tag == tag).then_some(g)) is that filter
                run.ob("R-CONTAINER", "groups_of = groups.iter().filter(tag ==)", ok, tshow(r)[:200], site(b), key="R-CONTAINER|%s|shape" % GROUPS_OF)
        # group constructor
        gb = F.body("ipp::attribute::IppAttributeGroup::new")
        if gb is None:
            run.anchor_lost("R-CONTAINER", "ipp::attribute::IppAttributeGroup::new")
        else:
            r = paths_of(gb)[0].ret
            ok = r[0] == "ctor" and isinstance(r[2], dict) and r[2].get("tag") == ("var", "tag") and is_call(r[2].get("attributes")) and r[2]["attributes"][1].split("::")[-1] in ("new", "with_capacity", "default", "with_hasher", "with_capacity_and_hasher")
            run.ob("R-CONTAINER", "IppAttributeGroup::new(tag) = {tag, empty map}", ok, tshow(r)[:160], site(gb), key="R-CONTAINER|group-new")
        # type facts
        adt = F.adts.get("ipp::value::IppValue")
        if adt is None:
            run.anchor_lost("R-CONTAINER", "ipp::value::IppValue")
        else:
            vs = {v["name"]: v for v in adt["variants"]}
            ct = vs.get("Collection", {}).get("fields", [{}])[0].get("ty", "")
            at = vs.get("Array", {}).get("fields", [{}])[0].get("ty", "")
            run.ob("R-CONTAINER", "Collection holds an ordered map keyed by member name", ct.startswith("std::collections::BTreeMap<std::string::String, ipp::value::IppValue"),
                   "Collection payload type is %s (member-name order would not be defined)" % ct, "%s:%s" % (adt["file"], adt["line"]), key="R-CONTAINER|collection-type")
            run.ob("R-CONTAINER", "Array holds a Vec", at.startswith("std::vec::Vec<ipp::value::IppValue"), "Array payload type is %s" % at,
                   "%s:%s" % (adt["file"], adt["line"]), key="R-CONTAINER|array-type")
        ga = F.adts.get("ipp::attribute::IppAttributes")
        if ga:
            gt = ga["variants"][0]["fields"][0]["ty"]
            run.ob("R-CONTAINER", "group list is a Vec", gt.startswith("std::vec::Vec<ipp::attribute::IppAttributeGroup"), gt, key="R-CONTAINER|groups-type")
        check_ordered(run, F)
        from .. import codecrules as _cr
        check_attribute_ctor(run, F)
        nmk = _cr.r_mapkey(run, F)
        run.floor("R-MAPKEY", nmk, 2, "inserts into attribute maps (parser, add)")
        items = F.impl_items("ipp::value::IppValueIterator", "std::iter::Iterator")
        run.ob("R-CONTAINER", "impl Iterator for IppValueIterator defines next (and at most size_hint)", items is not None and set(items) <= {"Item", "next", "size_hint"} and "next" in items,
               "impl defines %s: an overridden adaptor (nth, skip, fold, count, last ...) is a second traversal that can disagree with next()" % items,
               key="R-CONTAINER|iterator-impl-items")
        # ---- the value iterator ------------------------------------------------------------
        ib = F.body(INTO_ITER)
        if ib is None:
            run.anchor_lost("R-CONTAINER", INTO_ITER)
        else:
            r = paths_of(ib)[0].ret
            ok = r[0] == "ctor" and isinstance(r[2], dict) and r[2].get("value") == ("var", "self") and r[2].get("index") == ("lit", 0)
            run.ob("R-CONTAINER", "into_iter starts at index 0 on the value itself", ok, tshow(r), site(ib), key="R-CONTAINER|into_iter")
        nb = F.body(NEXT)
        if nb is None:
            run.anchor_lost("R-CONTAINER", NEXT)
            continue
        paths = paths_of(nb)
        run.floor("R-CONTAINER", len(paths), 4, "paths through the value iterator")
        IDX = ("field", ("var", "self"), "index")
        arms = {"Array": 0, "Collection": 0, "_": 0}
        for p in paths:
            pc = " && ".join(cshow(c) for c in p.conds)[:200]
            arm = "_"
            for c in p.conds:
                if c[0] == "match" and c[1] == ("field", ("var", "self"), "value"):
                    arm = "Array" if "::Array" in c[2] else ("Collection" if "::Collection" in c[2] else "_")
            r = simp(p.ret)
            conds_ = list(p.conds)
            if r[0] != "ctor" and p.kind != "try":
                # `let item = <Option expression>; if item.is_some() { index += 1 } item`: the returned Option under the test of its own
                # presence is Some(<its content>) on one side and None on the other
                for c in p.conds:
                    if c[0] == "if" and is_call(c[1], "std::option::Option::<T>::is_some", "std::option::Option::<T>::is_none") and (c[1][2][0] is p.ret or same(c[1][2][0], p.ret)):
                        present = c[2] if c[1][1].endswith("is_some") else (not c[2])
                        x = p.ret
                        if not present:
                            r = ("ctor", "std::prelude::v1::None", [])
                        elif is_call(x, "core::bool::<impl bool>::then_some") and len(x[2]) == 2:
                            conds_.append(("if", x[2][0], True))         # (c).then_some(v) is Some exactly when c holds
                            r = ("ctor", "std::prelude::v1::Some", [x[2][1]])
                        elif is_call(x, "std::option::Option::<T>::map") and len(x[2]) == 2 and x[2][1][0] == "closure":
                            cp = closure_paths(nb, x[2][1], [("ok?", x[2][0])])
                            if len(cp) == 1:
                                r = ("ctor", "std::prelude::v1::Some", [cp[0].ret])
                        else:
                            r = ("ctor", "std::prelude::v1::Some", [("ok?", x)])
                        break
            p = type("P", (), {"conds": conds_, "trace": p.trace, "kind": p.kind, "ret": p.ret})()
            incs = [t for t in p.trace if is_call(t, "<assignop>") and "index" in str(t[2][0][1])]
            assigns = [t for t in p.trace if is_call(t, "<assign>") and "index" in str(t[2][0][1])]
            is_some = r[0] == "ctor" and r[1].endswith("::Some")
            is_none = (r[0] == "ctor" and r[1].endswith("::None")) or p.kind == "try"       # `?` on an Option returns None
            if is_some:
                arms[arm] += 1
                ok = len(incs) == 1 and not assigns and incs[0][2][1] == ("lit", "AddAssign") and incs[0][2][2] == ("lit", 1)
                if not ok and not incs and len(assigns) == 1 and isinstance(assigns[0][2][1], tuple) and assigns[0][2][1][0] == "bin" and assigns[0][2][1][1] == "Add" and \
                        ((assigns[0][2][1][2] == IDX and assigns[0][2][1][3] == ("lit", 1)) or (assigns[0][2][1][3] == IDX and assigns[0][2][1][2] == ("lit", 1))):
                    ok = True           # `index = index + 1` (through a local copy of the old index) is `index += 1`
                if not ok and not incs and len(assigns) == 1 and assigns[0][2][1] == ("lit", 1) and \
                        any(c[0] in ("if", "guard") and ((c[2] is True and c[1] == ("bin", "Eq", IDX, ("lit", 0))) or (c[2] is False and c[1] == ("bin", "Ne", IDX, ("lit", 0)))) for c in p.conds):
                    ok = True           # `index = 1` under `index == 0` is `index += 1`
                run.ob("R-CONTAINER", "iterator[%s]: Some path advances the index by exactly 1" % arm, ok,
                       "index updates on this path: %s [%s]" % ([tshow(t) for t in incs + assigns], pc), site(nb), key="R-CONTAINER|next|%s|progress" % arm)
                el = r[2][0]
                if arm == "Array" and el[0] == "ok?" and is_call(el[1], "core::slice::<impl [T]>::get") and el[1][2][1] == IDX:
                    # array.get(index)? : element and bound check in one
                    base = el[1][2][0]
                    ok_el = base[0] == "proj" and base[1] == ("field", ("var", "self"), "value")
                    run.ob("R-CONTAINER", "iterator[Array]: yields array[old index]", ok_el, "yields %s" % tshow(el)[:120], site(nb), key="R-CONTAINER|next|Array|element")
                    run.ob("R-CONTAINER", "iterator[Array]: guarded by index < len", True, "get(index)?", site(nb), key="R-CONTAINER|next|Array|guard")
                elif arm == "Array":
                    ok_el = el[0] == "index" and el[2] == IDX and el[1][0] == "proj" and el[1][1] == ("field", ("var", "self"), "value")
                    guard = any(c[0] in ("if", "guard") and isinstance(c[1], tuple) and c[1][0] == "bin" and
                                ((c[2] is True and c[1][1] == "Lt" and c[1][2] == IDX and is_call(c[1][3]) and c[1][3][1].endswith("::len")) or
                                 (c[2] is False and c[1][1] == "Ge" and c[1][2] == IDX and is_call(c[1][3]) and c[1][3][1].endswith("::len")) or
                                 (c[2] is True and c[1][1] == "Gt" and c[1][3] == IDX and is_call(c[1][2]) and c[1][2][1].endswith("::len")) or
                                 (c[2] is False and c[1][1] == "Le" and c[1][3] == IDX and is_call(c[1][2]) and c[1][2][1].endswith("::len")))
                                for c in p.conds)
                    run.ob("R-CONTAINER", "iterator[Array]: yields array[old index]", ok_el, "yields %s" % tshow(el)[:120], site(nb), key="R-CONTAINER|next|Array|element")
                    run.ob("R-CONTAINER", "iterator[Array]: guarded by index < len", guard, pc, site(nb), key="R-CONTAINER|next|Array|guard")
                elif arm == "Collection":
                    # value of the index-th entry in map order
                    base = el
                    ok_el = False
                    why = tshow(el)[:160]
                    if base[0] == "proj" and base[2] in ("1",) or (base[0] == "field" and base[2] == "1"):
                        ent = base[1]
                        if ent[0] == "ok?" and is_call(ent[1], "std::iter::Iterator::nth"):
                            ent = ("proj", ent[1], "Some.0")            # map.iter().nth(index)?.1
                        if ent[0] == "proj" and is_call(ent[1], "std::iter::Iterator::nth"):
                            nth = ent[1]
                            ok_el = nth[2][1] == IDX and is_call(nth[2][0]) and nth[2][0][1] in ("std::collections::BTreeMap::<K, V, A>::iter",) and nth[2][0][2][0][0] == "proj"
                    if is_call(base, "std::iter::Iterator::nth") or (base[0] in ("proj", "ok?") and is_call(base[1], "std::iter::Iterator::nth") and base[1][2][0][1].endswith("::values")):
                        nth = base if is_call(base) else base[1]
                        ok_el = nth[2][1] == IDX
                    run.ob("R-CONTAINER", "iterator[Collection]: yields the value of the index-th member in map order", ok_el,
                           "unrecognised collection traversal: %s (accepted: map.iter().nth(index).1 / map.values().nth(index))" % why, site(nb),
                           key="R-CONTAINER|next|Collection|element")
                else:
                    guard = any(c[0] in ("if", "guard") and ((c[2] is True and c[1] == ("bin", "Eq", IDX, ("lit", 0))) or (c[2] is False and c[1] == ("bin", "Ne", IDX, ("lit", 0))))
                                for c in p.conds)
                    # the scalar arm must be unreachable for containers: both container arms are earlier and unguarded
                    for c in p.conds:
                        if c[0] == "match" and c[1] == ("field", ("var", "self"), "value") and c[4].get("k") in ("wild", "bind"):
                            excl = all(any(("::" + kind) in e for e in c[5]) for kind in ("Array", "Collection"))
                            run.ob("R-CONTAINER", "iterator[scalar]: the catch-all arm cannot be reached by a set or collection", excl,
                                   "the catch-all arm is reached when an earlier guarded arm %s matches and its guard fails: an exhausted or empty set / collection "
                                   "would be yielded as its own single element" % (c[6] if len(c) > 6 else []), site(nb), key="R-CONTAINER|next|scalar|container-falls-through")
                    run.ob("R-CONTAINER", "iterator[scalar]: yields the value itself, once (index == 0)", guard and el == ("field", ("var", "self"), "value"),
                           "yields %s under [%s]" % (tshow(el), pc), site(nb), key="R-CONTAINER|next|scalar")
            elif is_none:
                run.ob("R-CONTAINER", "iterator[%s]: None path leaves the index unchanged" % arm, not incs and not assigns, [tshow(t) for t in incs + assigns], site(nb),
                       key="R-CONTAINER|next|%s|none" % arm)
            else:
                run.ob("R-CONTAINER", "iterator[%s]: result is Some/None" % arm, False, tshow(r)[:120], site(nb), key="R-CONTAINER|next|%s|result" % arm)
        for a, n in arms.items():
            run.ob("R-CONTAINER", "iterator has a yielding path for %s" % a, n >= 1, "no Some path", site(nb), key="R-CONTAINER|next|%s|missing" % a)
