"""C04 - the parser reads every well-formed RFC 8010 message as the RFC says.
R-DISPATCH, decoder side of R-TAGMAP / R-LAYOUT against the RFC tables, R-LOSSY, R-ORDERED-CONTAINERS,
list_or_value, and R-LINEAR (no received value is silently dropped on a success path)."""
import os

from .. import codecrules as cr
from .. import readerrules as rr
from ..engine import VERIF, load_json
from ..facts import site
from ..linear import analyse
from ..symx import all_calls, cshow, paths_of, tshow
from ..terms import is_call, opt_polarity, same, subterms

STATE_FNS = ["ipp::parser::ParserState::parse_value", "ipp::parser::ParserState::parse_delimiter", "ipp::parser::ParserState::add_last_attribute",
             "ipp::parser::list_or_value"]
MARKERS = ["ipp::value::IppValue", "ipp::attribute::IppAttribute", "ipp::attribute::IppAttributeGroup", "ipp::attribute::IppAttributes"]


def exception_edges(run, fn, F=None):
    """(condition term, edge) -> reason, from tables/exceptions.json entries  R-LINEAR|<fn>|<cond>|<edge>.
    A function that is not on the reviewed list is code moved out of its reviewed callers: their exceptions apply to it."""
    fns = {fn}
    if F is not None:
        from ..symx import known_functions
        from .. import guardrules as gr
        if fn not in known_functions():
            g = gr.call_graph(F)
            frontier, seen = {fn}, {fn}
            for _ in range(3):
                callers = {c for c, callees in g.items() if callees & frontier} - seen
                fns |= {c for c in callers if c in known_functions()}
                frontier = {c for c in callers if c not in known_functions()}
                seen |= callers
                if not frontier:
                    break
    out = {}
    for key, e in run.exceptions.items():
        parts = key.split("|")
        if len(parts) == 5 and parts[0] == "R-LINEAR" and parts[1] in fns:
            out[(parts[2], parts[3], parts[4])] = (key, e.get("reason", ""))
    return out


def check_parser_no_add(run, F):
    """The parser appends groups itself; it never files attributes through add(), which targets the first group of a kind."""
    from ..facts import callee as _callee, walk as _walk
    for _path, _body in F.hir.items():
        if _path.startswith("ipp::parser::") and "::tests::" not in _path:
            for _n in _walk(_body["body"]):
                if (_callee(_n) or "") in ("ipp::attribute::IppAttributes::add",):
                    run.ob("R-ORDERED", "the parser files attributes into the group it is reading", False,
                           "%s calls IppAttributes::add: add targets the *first* group of a kind, so the attributes of a repeated group (one job group per job) are merged into the first one" % _path,
                           site(_body, _n), key="R-ORDERED|%s|parser-calls-add" % _path)


def marker_closure(F):
    """Message types and every crate type that (transitively) owns one: dropping a `ParserState` drops the values inside it."""
    marks = set(MARKERS)
    changed = True
    while changed:
        changed = False
        for path, a in F.adts.items():
            if path in marks or not path.startswith("ipp::"):
                continue
            if any(any(m in f["ty"] for m in marks) for v in a["variants"] for f in v["fields"]):
                marks.add(path)
                changed = True
    return sorted(marks)


def r_linear(run, F, rule="R-LINEAR"):
    n = 0
    markers = marker_closure(F)
    # the fixed anchors plus every other non-test fn of the parser module the compiler gave elaborated MIR for (new helpers)
    from .. import linear as _lin
    _lin.DISCR.clear()
    for _adt, _d in F.adts.items():
        for _v in _d.get("variants", []):
            if _v.get("discr") is not None:
                _lin.DISCR["%s::%s" % (_adt, _v["name"])] = _v["discr"]
    fns = list(STATE_FNS) + sorted(f for f in F.mir_elab if f.startswith("ipp::parser::") and "::tests::" not in f and f not in STATE_FNS)
    for fn in fns:
        body = F.mir_elab.get(fn)
        if body is None:
            run.anchor_lost(rule, fn + " (elaborated MIR)")
            continue
        ex = exception_edges(run, fn, F)
        results, stats, m = analyse(body, markers, ex)
        for r in results:
            n += 1
            st = "%s:%s (%s)" % (body["file"], r["line"], fn)
            if r["sanctioned"]:
                for u in r.get("used", []):
                    if u.startswith("exception: "):
                        pc, edge = u[len("exception: "):].rsplit(" -> ", 1)
                        eplace, cond = pc.split("|", 1)
                        k = ex.get((eplace, cond, edge))
                        if k:
                            run.excepted(k[0])
                run.ob(rule, "%s: drop of `%s` never loses a received value" % (fn.split("::")[-1], r["place"][:60]), True, r["why"][:300], st)
            else:
                run.ob(rule, "%s: drop of `%s` never loses a received value" % (fn.split("::")[-1], r["place"][:60]), False,
                       "`%s` (%s) is dropped on a path that returns success: a value received from the wire is silently discarded. Path: %s  "
                       "[exception key form: R-LINEAR|%s|<%s>|<condition>|<edge>]" % (r["place"], r["pty"][:60], "; ".join(r["path"]), fn, r["pty"]),
                       st, key="%s|%s|<%s>" % (rule, fn, r["pty"][:60]))
        run.note("%s: product graph %s" % (fn, stats))
    return n


def r_state_order(run, F, rule="R-ORDERED"):
    """parse_delimiter: finish the pending attribute, then close the group (push at the end), then open the new one."""
    b = F.body("ipp::parser::ParserState::parse_delimiter")
    if b is None:
        run.anchor_lost(rule, "ipp::parser::ParserState::parse_delimiter")
        return
    cg = ("field", ("var", "self"), "current_group")
    for p in paths_of(b):
        if p.kind == "try" or (p.ret[0] == "ctor" and p.ret[1].endswith("::Err")):
            continue
        names = [t[1] for t in p.trace if is_call(t)]

        def idx(pred):
            for i, t in enumerate(p.trace):
                if is_call(t) and pred(t):
                    return i
            return None
        i_last = idx(lambda t: t[1] == "ipp::parser::ParserState::add_last_attribute")
        TAKE = ("std::option::Option::<T>::take", "std::option::Option::<T>::replace", "std::mem::replace", "std::mem::take")
        i_take = idx(lambda t: t[1] in TAKE and t[2][0] == cg)
        i_push = idx(lambda t: t[1] == "std::vec::Vec::<T, A>::push" and is_call(t[2][0], "ipp::attribute::IppAttributes::groups_mut"))
        i_new = idx(lambda t: (t[1] == "<assign>" and "current_group" in str(t[2][0][1])) or (t[1] in TAKE[1:3] and t[2][0] == cg))
        taken_some = any(c[0] == "match" and is_call(c[1], *TAKE) and opt_polarity(c) is True for c in p.conds)
        # the old group is taken out (take, or replace by the new one), appended, and the new one installed - the pending attribute first
        ok = i_last is not None and i_take is not None and i_new is not None and i_last < i_take <= i_new and (not taken_some or (i_push is not None and i_take < i_push))
        run.ob(rule, "parse_delimiter: pending attribute closed, then group appended, then new group opened [%s]" % ("group open" if taken_some else "no group"), ok,
               "call order on this path: %s" % [n.split("::")[-1] for n in names], site(b), key="%s|parse_delimiter|order" % rule)
        if taken_some and i_push is not None:
            t = p.trace[i_push]
            pushed = t[2][1]
            run.ob(rule, "parse_delimiter: the closed group itself is appended", pushed[0] == "proj" and is_call(pushed[1], *TAKE) and pushed[1][2][0] == cg,
                   tshow(pushed)[:80], site(b), key="%s|parse_delimiter|pushed" % rule)
        asg = p.trace[i_new] if i_new is not None else None
        if asg is not None:
            v = asg[2][1]
            if v[0] != "ctor" and is_call(v, "ipp::attribute::IppAttributeGroup::new"):
                v = ("ctor", "std::option::Option::Some", [v])       # Option::replace(new) installs Some(new)
            dl = v[2][0][2][0] if (v[0] == "ctor" and v[1].endswith("::Some") and is_call(v[2][0], "ipp::attribute::IppAttributeGroup::new")) else None
            ok2 = dl is not None and ((dl[0] == "ok?") or (dl[0] == "proj" and str(dl[2]).startswith("Some.") and is_call(dl[1]))) and \
                any(is_call(x) and x[1].endswith("::from_u8") for x in subterms(dl))
            run.ob(rule, "parse_delimiter: new current group has the decoded delimiter", ok2, tshow(v)[:100], site(b), key="%s|parse_delimiter|new-group" % rule)
    # add_last_attribute keeps the value-list stack balanced: it opens a fresh list exactly on the paths where it closed the pending one
    # (a push without a pop grows the stack with every delimiter until the depth limit refuses a well-formed message; a pop without
    # a push leaves the next attribute's values with nowhere to go)
    ab = F.body("ipp::parser::ParserState::add_last_attribute")
    if ab is None:
        run.anchor_lost(rule, "ipp::parser::ParserState::add_last_attribute")
    else:
        ctx = ("field", ("var", "self"), "context")
        for p in paths_of(ab):
            if p.kind == "try":
                continue
            calls = [t for t, _ in all_calls(p)]
            pops = [t for t in calls if t[1].startswith("std::vec::Vec::<T, A>::") and t[1].split("::")[-1] in ("pop", "remove", "swap_remove", "truncate", "clear", "drain", "split_off") and t[2] and t[2][0] == ctx]
            pushes = [t for t in calls if t[1].startswith("std::vec::Vec::<T, A>::") and t[1].split("::")[-1] in ("push", "insert", "extend", "append", "resize") and t[2] and t[2][0] == ctx]
            took = any(c[0] == "match" and is_call(c[1], "std::option::Option::<T>::take") and opt_polarity(c) is True for c in p.conds)
            run.ob(rule, "add_last_attribute: value-list stack balanced (one pop and one push when an attribute is pending, none otherwise)",
                   len(pops) == len(pushes) and len(pops) == (1 if took else 0),
                   "%d pop(s), %d push(es) on a path where an attribute %s pending [%s]" % (len(pops), len(pushes), "is" if took else "is not", " && ".join(cshow(c) for c in p.conds)[:160]),
                   site(ab), key="%s|add_last_attribute|balance|%s" % (rule, took))
    # list_or_value: one value -> scalar, otherwise the list as a set
    lb = F.body("ipp::parser::list_or_value")
    if lb is None:
        run.anchor_lost(rule, "ipp::parser::list_or_value")
    else:
        seen = set()
        for p in paths_of(lb):
            one, conv = None, None
            for c in p.conds:
                if c[0] == "if" and c[1][0] == "bin" and c[1][1] == "Eq" and is_call(c[1][2], "std::vec::Vec::<T, A>::len") and c[1][3] == ("lit", 1):
                    one = c[2]
                # `<[IppValue; 1]>::try_from(list)`: Ok([x]) exactly when the list has one element, the untouched list back in Err otherwise
                if c[0] == "match" and is_call(c[1], "std::convert::TryFrom::try_from") and c[1][2] == [("var", "list")] and len(c[1]) > 3 and \
                        str((c[1][3] or {}).get("ty", "")).replace(" ", "").startswith("std::result::Result<[ipp::value::IppValue;1],"):
                    one, conv = opt_polarity(c), c[1]
            r = p.ret
            if one is True:
                ok = (is_call(r, "std::vec::Vec::<T, A>::remove", "std::vec::Vec::<T, A>::swap_remove") and r[2][0] == ("var", "list") and r[2][1] == ("lit", 0)) or \
                    (conv is not None and r == ("index", ("proj", conv, "Ok.0"), ("lit", 0)))
                seen.add("one")
            elif one is False:
                ok = r == ("ctor", "ipp::value::IppValue::Array", [("var", "list")]) or \
                    (conv is not None and r == ("ctor", "ipp::value::IppValue::Array", [("proj", conv, "Err.0")]))
                seen.add("many")
            else:
                ok = False
            run.ob(rule, "list_or_value: %s" % ("exactly one value -> that value" if one else "otherwise -> the list as an ordered set"), ok, tshow(r)[:80], site(lb),
                   key="%s|list_or_value|%s" % (rule, one))
        run.ob(rule, "list_or_value has both cases", seen == {"one", "many"}, str(seen), site(lb), key="%s|list_or_value|cases" % rule)
    # values are appended (push) to the open list; named value starts a new attribute after closing the pending one
    vb = F.body("ipp::parser::ParserState::parse_value")
    if vb is None:
        run.anchor_lost(rule, "ipp::parser::ParserState::parse_value")
    else:
        for p in paths_of(vb):
            if p.kind in ("try",) or (p.ret[0] == "ctor" and p.ret[1].endswith("::Err")):
                continue
            named = None
            for c in p.conds:
                if c[0] == "if":
                    t, pol = c[1], c[2]
                    while t[0] == "un" and t[1] == "Not":
                        t, pol = t[2], not pol
                    if is_call(t, "std::string::String::is_empty") and t[2][0] == ("var", "name"):
                        named = not pol
            calls = [t for t in p.trace if is_call(t)]
            closes = [t for t in calls if t[1] == "ipp::parser::ParserState::add_last_attribute"]
            setname = [t for t in calls if t[1] == "<assign>" and "last_name" in str(t[2][0][1])]
            if named is True:
                ok = len(closes) == 1 and len(setname) == 1 and setname[0][2][1] == ("ctor", "std::prelude::v1::Some", [("var", "name")]) and \
                    p.trace.index(closes[0]) < p.trace.index(setname[0])
                run.ob(rule, "parse_value: a named value closes the pending attribute and starts a new one", ok, [tshow(t)[:60] for t in closes + setname], site(vb),
                       key="%s|parse_value|named" % rule)
            elif named is False:
                run.ob(rule, "parse_value: an additional (unnamed) value stays in the open attribute", not closes and not setname, [tshow(t)[:60] for t in closes + setname], site(vb),
                       key="%s|parse_value|additional" % rule)


def check(run, views, tier):
    run.explanation = (
        "R-DISPATCH: the delimiter / value / reject partition of all 256 tag bytes read off the dispatch patterns, InvalidTag "
        "carries the offending byte. Decoder side of R-TAGMAP / R-LAYOUT: every registered tag is decoded into the kind whose "
        "RFC 8010 3.9 layout the reads follow, field by field; unregistered and out-of-band tags fall to Other with tag and "
        "bytes intact. R-LOSSY: text is converted lossily, never rejected. R-ORDERED: groups and value lists only grow by push, "
        "the pending attribute is closed before the group switch, the closed group is appended before the new one is opened, "
        "one value -> scalar / several -> ordered set. R-LINEAR: on the product of the drop-elaborated MIR's CFG with the "
        "drop-flag valuation and the pending return kind, no place holding a message value is dropped on a path that returns "
        "success unless every such path crosses a sanctioned edge (exhausted iterator, provably-None place, take(), or a "
        "reviewed exception identified by its condition term).")
    run.trusted = ["rustc's drop elaboration (which places are dropped where)", "tables/layout.json, tables/registry.json", "String::from_utf8_lossy replaces invalid sequences"]
    run.not_decided = ["that the in-memory member pairing produces exactly the RFC's tree for every well-formed input (algorithmic correctness over unbounded inputs)"]
    T = cr.layout_table()
    for cfg, crates in views.items():
        run.cfg = cfg
        F = crates["ipp"]
        # the nesting limit is tested before the stack grows (a limit tested after the push refuses the deepest legal message) - R-DEPTH
        from .. import guardrules as _gr
        from ..engine import VERIF as _V, load_json as _lj
        import os as _os
        _saved = (run.explanation, run.trusted, run.not_decided)
        _gr.r_depth(run, F, _lj(_os.path.join(_V, "tables", "panic.json")))
        run.explanation, run.trusted, run.not_decided = _saved
        nd = rr.r_dispatch(run, F)
        run.floor("R-DISPATCH", nd, 512 if rr.async_on(F) else 256, "tag bytes classified")
        # the parser formats every decoded value in a trace!() call: a Display that can panic on well-formed text makes the
        # parser refuse (abort on) a well-formed message. R-GUARD's text-slice clause over the parse cone (which contains Display).
        rr.r_trace_display(run, F)
        rr.r_token(run, F)
        check_parser_no_add(run, F)
        rr.r_readexact(run, F)
        rr.r_stop_onlyexit(run, F)
        rr.r_errwrap(run, F)
        from ..engine import include as _inc
        from . import c19 as _c19
        _inc(run, _c19, {cfg: {"ipp": F}}, tier)
        # a decode error must be returned, not skipped (a swallowed error turns the rest of the attribute into something else)
        rr.r_propagate(run, F)
        n = cr.r_tagmap(run, F, T, check_registry=True)
        run.floor("R-TAGMAP", n, 19, "fixed-tag kinds")
        ne, ndec = cr.r_layout(run, F, T, external=True, casts=False)
        run.floor("R-LAYOUT", ndec, 19, "decoder arms")
        nl = rr.r_lossy(run, F)
        run.floor("R-LOSSY", nl, 3, "lossy text conversions")
        nrej = rr.r_reject(run, F)
        run.floor("R-REJECT", nrej, 5 if rr.async_on(F) else 4, "explicit rejection sites in the parse cone")
        r_state_order(run, F)
        from .c19 import check_ordered
        check_ordered(run, F)
        nlin = r_linear(run, F)
        run.floor("R-LINEAR", nlin, 6, "drop sites of value-holding places in the state machine")
        # begin / end collection markers must be empty, else InvalidCollection
        vb = F.body("ipp::parser::ParserState::parse_value")
        if vb is not None:
            errs = [p for p in paths_of(vb) if p.kind == "return" and p.ret == ("ctor", "std::prelude::v1::Err", [("ctor", "ipp::parser::IppParseError::InvalidCollection", [])])]
            kinds = set()
            for p in errs:
                for c in p.conds:
                    if c[0] == "if" and c[2] is True and c[1][0] == "bin" and c[1][1] == "Eq":
                        for side in (c[1][2], c[1][3]):
                            if side[0] == "cast" and side[2][0] == "ctor":
                                kinds.add(side[2][1].split("::")[-1])
            run.ob("R-BRACKET", "non-empty begin/end collection markers are rejected with InvalidCollection", {"BegCollection", "EndCollection"} <= kinds, str(kinds), site(vb),
                   key="R-BRACKET|parser|marker-check")
