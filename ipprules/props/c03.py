"""C03 - encoder output is well-formed RFC 8010 and means what was encoded.
External comparison of the encoder with RFC tables: R-TAGMAP (b,c), R-LAYOUT (b), R-LENPREFIX, R-TAGBODY,
R-BRACKET, R-BE, R-FRAME, R-ENDTAG / R-GROUPS, R-MAPKEY."""
from .. import codecrules as cr


def check(run, views, tier):
    run.explanation = (
        "The encoder's wire behaviour is extracted from the resolved HIR as ordered emission events per value kind and compared "
        "with *external* tables (tables/layout.json = RFC 8010 3.9 layouts and 3.5.2 tags, tables/registry.json): the tag each "
        "kind announces; the ordered (width, field) layout of every loop-free kind; every value-length prefix equals the symbolic "
        "size of the bytes that follow (linear forms over constants and field lengths); in sets every additional value is "
        "announced by its own tag with an empty name and only the first value is untagged; collections are begin marker, "
        "(memberAttrName, value)*, end marker with empty name and value; big-endian only; attribute = tag, name length, name, "
        "value; operation group first, each other group behind its delimiter, one end tag last; map keys are attribute names. "
        "The rules hold for the loop bodies, hence for every map iteration order.")
    run.trusted = ["bytes::BufMut::put_* append big-endian integers of the stated width", "tables/layout.json, tables/registry.json"]
    run.not_decided = ["that an independent decoder reads back content equal to the message for arbitrary trees (needs execution)",
                       "byte identity with a reference encoding beyond the loop-free kinds"]
    T = cr.layout_table()
    for cfg, crates in views.items():
        run.cfg = cfg
        F = crates["ipp"]
        # the encoder reads the container: what `add` stored, in the order it stored it (C19's clauses)
        from ..engine import include as _inc
        from . import c19 as _c19
        _inc(run, _c19, {cfg: {"ipp": F}}, tier)
        n = cr.r_tagmap(run, F, T, check_registry=True)
        run.floor("R-TAGMAP", n, 19, "fixed-tag kinds")
        ne, nd = cr.r_layout(run, F, T, external=True, casts=False)
        run.floor("R-LAYOUT", ne, 20, "loop-free encoder arms")
        run.floor("R-LAYOUT", nd, 19, "decoder arms")
        np_ = cr.r_tagbody_bracket(run, F, T)
        run.floor("R-TAGBODY", np_, 2, "tag/body pairs in sets and collections")
        cr.r_be(run, F)
        cr.r_frame(run, F)
        nk = cr.r_mapkey(run, F)
        run.floor("R-MAPKEY", nk, 3, "attribute map inserts")
        from . import c09
        saved = (run.explanation, run.trusted, run.not_decided)
        c09.check(run, {cfg: crates}, tier, with_ops=False)
        run.explanation, run.trusted, run.not_decided = saved
        run.cfg = cfg
