"""C17 - printer readiness check never reports a stopped or blocked printer as ready (R-READY).

Every syntactic path of `is_printer_ready` (local helpers inlined) is classified by the conditions it
assumes - status success?, printer-state == stopped?, any blocking reason? / reasons absent? - and by
the literal result it returns. Required: not-success <=> Err(StatusError(status)); stopped or blocked =>
Ok(false); Ok(true) only on paths that examined *both* the state and the reasons with a negative
outcome. The blocking keyword constant, evaluated by the compiler, must equal the 10-word list and be
looked up by a sound membership test; the reasons scan must go through the value iterator + as_keyword."""
import os

from ..engine import VERIF, load_json
from ..facts import site, unwrap
from ..symx import closure_paths, cshow, paths_of, simp, tshow
from ..terms import is_call, mentions, node_resolved, node_self_args, opt_polarity, pat_variants, same, subterms

FN = "ipp::util::is_printer_ready"
STATE_C = "ipp::attribute::IppAttribute::PRINTER_STATE"
REASONS_C = "ipp::attribute::IppAttribute::PRINTER_STATE_REASONS"
STOPPED = "ipp::model::PrinterState::Stopped"
PRINTER_GROUP = "ipp::model::DelimiterTag::PrinterAttributes"


def truth(t, pol):
    while isinstance(t, tuple) and t[0] == "un" and t[1] == "Not":
        t, pol = t[2], not pol
    return t, pol


def cond_info(c):
    """-> (term, polarity or None, pattern variants)"""
    if c[0] == "if":
        t, pol = truth(c[1], c[2])
        return t, pol, set()
    if c[0] == "guard":
        t, pol = truth(c[1], c[2])
        return t, pol, set()
    if c[0] == "match":
        return c[1], c[3], pat_variants(c[4]) if len(c) > 4 and isinstance(c[4], dict) else set()
    return None, None, set()


def check(run, views, tier):
    run.explanation = (
        "R-READY: path classification of ipp::util::is_printer_ready over the resolved HIR (helpers of the same module "
        "inlined, one `?`/match/if fork per path). Obligations: per path the (status, stopped, blocked) assumptions "
        "against the literal result; the evaluated blocking-keyword constant against the 10-word list of the property; "
        "soundness of the membership test (contains, or binary_search over a sorted constant); the reasons scan uses "
        "`IntoIterator for &IppValue` and `as_keyword` so that a single keyword and a set take the same route; the "
        "state lookup uses printer-state / as_enum / PrinterState::from_i32 in the printer-attributes group.")
    run.trusted = ["slice::contains / binary_search / Iterator::any semantics", "the value iterator's behaviour (C19's clause)",
                   "Option combinators (and_then, map, filter_map)"]
    run.not_decided = ["element coverage of the value iterator (C19)"]
    T = load_json(os.path.join(VERIF, "tables", "ready.json"))
    from ..engine import include
    from . import c18, c19, c20
    # the helper reads the first printer-attributes group through the container API and the value iterator (C19's clauses)
    include(run, c19, views, tier)
    # ... and on the parser delivering every value of a set (C04: nothing received is dropped)
    from . import c04
    include(run, c04, views, tier)
    # a response that went through the serde feature must still carry typed values (C20's audit), where that feature is compiled
    sv = {c: cr_ for c, cr_ in views.items() if "serde" in cr_["ipp"].features}
    if sv:
        include(run, c20, sv, tier)
    # what ipputil asks the printer for must contain what the helper reads (C18's query clause), where ipputil is analysed
    uv = {c: cr_ for c, cr_ in views.items() if "ipputil" in cr_}
    if uv:
        include(run, c18, uv, tier, "query-attributes")
    for cfg, crates in views.items():
        run.cfg = cfg
        F = crates["ipp"]
        # "an error exactly when the response's status is not successful" rests on status decoding and the success set (C16's clauses)
        from .c16 import REG, check_status_semantics
        check_status_semantics(run, F, load_json(REG)["enums"])
        b = F.body(FN)
        if b is None:
            run.anchor_lost("R-READY", FN)
            continue
        inline = {p: bb for p, bb in F.hir.items() if p.startswith("ipp::util::") and p != FN and bb["kind"] in ("Fn",)
                  and "::tests::" not in p}
        paths = paths_of(b, inline=inline)
        run.floor("R-READY", len(paths), 4, "paths through " + FN)
        # named constants must carry the registered attribute names
        run.ob("R-READY", "PRINTER_STATE = 'printer-state'", F.const_value(STATE_C) == T["printer_state_attr"], "value %r" % F.const_value(STATE_C))
        run.ob("R-READY", "PRINTER_STATE_REASONS = 'printer-state-reasons'", F.const_value(REASONS_C) == T["reasons_attr"],
               "value %r" % F.const_value(REASONS_C))
        adt = F.adts.get("ipp::model::PrinterState")
        if adt:
            d = {v["path"]: v["discr"] for v in adt["variants"]}
            run.ob("R-READY", "PrinterState::Stopped = 5", d.get(STOPPED) == T["stopped"], "discriminant %s" % d.get(STOPPED))
        seen_any, seen_stop, checked_any = 0, 0, set()
        # a non-literal boolean result Ok(X) is split into the two virtual paths X / !X
        vpaths = []
        for p in paths:
            ret = simp(p.ret)
            if ret[0] == "ctor" and ret[1].endswith("::Ok") and ret[2] and ret[2][0][0] not in ("lit",):
                x, pol = truth(ret[2][0], True)
                for v in (True, False):
                    vpaths.append((p.conds + [("if", x, v)], ("ctor", ret[1], [("lit", v == pol)]), p.trace))
            else:
                vpaths.append((p.conds, ret, p.trace))
        for conds_, ret, trace_ in vpaths:
            p = type("VP", (), {"conds": conds_})()
            loop_neg = loop_scan_completed(run, F, b, trace_, T, checked_any)
            status_pol = None
            status_term = None
            stopped_pos = stopped_neg = state_absent = any_pos = any_neg = reasons_absent = False
            for c in p.conds:
                t, pol, pv = cond_info(c)
                if t is None:
                    continue
                m = mentions(t)
                if is_call(t, "ipp::model::StatusCode::is_success"):
                    status_pol, status_term = pol, t[2][0]
                    continue
                if group_lookup(t) and (pol is False or (c[0] == "match" and pol is not True and "None" in str(c[2]))):
                    state_absent = reasons_absent = True
                    continue
                if is_call(t, "<is_err>"):
                    if group_lookup(t[2][0]) and pol is True:
                        state_absent = reasons_absent = True
                        continue
                    inner = mentions(t[2][0])
                    if STATE_C in inner["defs"] and pol is True:
                        state_absent = True
                    if REASONS_C in inner["defs"] and pol is True:
                        reasons_absent = True
                    continue
                if is_call(t, "<in-loop>") and t[2] and REASONS_C in mentions(t[2][0])["defs"]:
                    # the scan written as a loop: `for v in reasons.value() { let Some(k) = v.as_keyword() else { continue }; if LIST.contains(k) { return Ok(false) } }`
                    hit = [c2 for c2 in p.conds if c2[0] == "if" and c2[2] is True and is_call(c2[1], "core::slice::<impl [T]>::contains") and c2[1][2][0][0] == "def"]
                    if hit and validate_loop_scan(run, F, b, t, hit[-1][1], T, checked_any):
                        any_pos = True
                    continue
                if is_call(t, "std::iter::Iterator::any"):
                    ok_any = validate_any(run, F, b, t, T, checked_any)
                    if ok_any:
                        if pol:
                            any_pos = True
                        else:
                            any_neg = True
                    continue
                mentions_stopped = STOPPED in pv or STOPPED in m["ctors"]
                if STATE_C in m["defs"] and REASONS_C not in m["defs"]:
                    if mentions_stopped:
                        validate_state(run, F, b, t, m)
                        positive = (pol is True) or (isinstance(pol, int) and not isinstance(pol, bool) and STOPPED in pv)
                        if c[0] == "if":
                            # comparison form: state == Some(Stopped)
                            positive = bool(pol) if (t[0] == "bin" and t[1] == "Eq") else (not pol if (t[0] == "bin" and t[1] == "Ne") else bool(pol))
                        if positive:
                            stopped_pos = True
                        else:
                            stopped_neg = True
                    else:
                        # a test on the state lookup that is not the stopped test: absent / other value
                        if c[0] == "match" and (pol is False or (len(c) > 5 and any("Stopped" in e for e in c[5]))):
                            stopped_neg = stopped_neg or any("Stopped" in e for e in (c[5] if len(c) > 5 else []))
                            state_absent = True
                        elif pol is False or "None" in str(c[2]):
                            state_absent = True
                elif REASONS_C in m["defs"]:
                    neg = (pol is False) or ("None" in str(c[2]) and pol is not True)
                    if c[0] == "match" and neg:
                        reasons_absent = True
            pc = " && ".join(cshow(c) for c in p.conds)
            short = "path[status_ok=%s stopped=%s blocked=%s state_absent=%s reasons_absent=%s]" % (
                status_pol, "+" if stopped_pos else ("-" if stopped_neg else "?"),
                "+" if any_pos else ("-" if any_neg else "?"), state_absent, reasons_absent)
            st = site(b)
            if status_pol is None:
                run.ob("R-READY", short + " status gate", False, "result %s does not depend on the response status [%s]" % (tshow(ret)[:80], pc[:300]), st,
                       key="R-READY|%s|no-status-gate" % FN)
                continue
            if status_pol is False:
                ok = ret[0] == "ctor" and ret[1].endswith("::Err") and ret[2] and ret[2][0][0] == "ctor" and \
                    ret[2][0][1] == "ipp::error::IppError::StatusError" and same(ret[2][0][2][0], status_term) and \
                    is_call(status_term, "ipp::IppHeader::status_code")
                run.ob("R-READY", short + " -> Err(StatusError(status))", ok, "non-successful status returns %s" % tshow(ret)[:160], st,
                       key="R-READY|%s|not-success-result" % FN)
                continue
            lit = ret[2][0] if (ret[0] == "ctor" and ret[1].endswith("::Ok") and ret[2] and ret[2][0][0] == "lit") else None
            if lit is None or not isinstance(lit[1], bool):
                run.ob("R-READY", short + " literal result", False, "successful status returns %s (not a literal Ok(true/false))" % tshow(ret)[:160], st,
                       key="R-READY|%s|non-literal-result" % FN)
                continue
            val = lit[1]
            if stopped_pos:
                seen_stop += 1
            if any_pos:
                seen_any += 1
            if stopped_pos or any_pos:
                run.ob("R-READY", short + " -> Ok(false)", val is False, "a stopped/blocked printer is reported ready [%s]" % pc[:400], st,
                       key="R-READY|%s|blocked-but-ready" % FN)
            elif val is False:
                run.ob("R-READY", short + " Ok(false) justified", False,
                       "Ok(false) on a path with neither a stopped state nor a blocking reason [%s]" % pc[:400], st,
                       key="R-READY|%s|unjustified-not-ready" % FN)
            else:
                state_ok = stopped_neg or state_absent
                reasons_ok = any_neg or reasons_absent or loop_neg
                run.ob("R-READY", short + " Ok(true) examined the state", state_ok,
                       "Ok(true) on a path that never tested printer-state against stopped [%s]" % pc[:400], st,
                       key="R-READY|%s|ready-without-state-test" % FN)
                run.ob("R-READY", short + " Ok(true) examined the reasons", reasons_ok,
                       "Ok(true) on a path that never scanned printer-state-reasons (a blocked printer would be reported ready) [%s]" % pc[:400], st,
                       key="R-READY|%s|ready-without-reasons-scan" % FN)
        run.ob("R-READY", "a path tests printer-state == stopped", seen_stop >= 1, "no stopped test found", site(b),
               key="R-READY|%s|no-stopped-test" % FN)
        run.ob("R-READY", "a path scans the reasons for blocking keywords", seen_any >= 1, "no recognised blocking-reason scan found", site(b),
               key="R-READY|%s|no-reasons-scan" % FN)


def group_lookup(t):
    """t = first printer-attributes group of the response (an Option)."""
    if is_call(t, "std::iter::Iterator::next") and is_call(t[2][0], "ipp::attribute::IppAttributes::groups_of"):
        a = t[2][0][2]
        return len(a) == 2 and a[1][0] == "ctor" and a[1][1] == PRINTER_GROUP
    return False


def validate_state(run, F, b, t, m):
    st = site(b)
    run.ob("R-READY", "state lookup: printer-attributes group", PRINTER_GROUP in m["ctors"],
           "state is not looked up in the printer-attributes group: %s" % sorted(c for c in m["ctors"] if "DelimiterTag" in c), st,
           key="R-READY|%s|state-group" % FN)
    run.ob("R-READY", "state lookup: as_enum", "ipp::value::IppValue::as_enum" in m["callees"],
           "printer-state is not read with as_enum (accessors used: %s)" % sorted(c for c in m["callees"] if "IppValue::as_" in c), st,
           key="R-READY|%s|state-accessor" % FN)
    ok = False
    for n in m["nodes"]:
        c = n.get("callee") or ""
        if c.startswith("num_traits::FromPrimitive::from_i") and node_self_args(n)[:1] == ["ipp::model::PrinterState"]:
            ok = True
    run.ob("R-READY", "state lookup: PrinterState::from_i32", ok, "state value is not decoded with PrinterState's FromPrimitive", st,
           key="R-READY|%s|state-decode" % FN)


def _scan_const_ok(run, F, const, T, checked):
    key = ("const", const)
    if key not in checked:
        checked.add(key)
        val = F.const_value(const)
        c = F.consts.get(const, {})
        ok = isinstance(val, list) and set(val) == set(T["blocking"])
        run.ob("R-READY", "blocking keyword constant == the 10-word list", ok,
               "missing %s, extra %s" % (sorted(set(T["blocking"]) - set(val or [])), sorted(set(val or []) - set(T["blocking"]))),
               "%s:%s (%s)" % (c.get("file"), c.get("line"), const), key="R-READY|%s|keyword-set" % const)
    val = F.const_value(const)
    return isinstance(val, list) and set(val) == set(T["blocking"])


def validate_loop_scan(run, F, b, inloop, contains, T, checked):
    """The loop form of the blocking-reason scan: iterates the reasons value of the printer group with the value iterator, reads each element
    with as_keyword and tests membership in the reviewed keyword constant."""
    itv = inloop[2][0]
    node = inloop[3] if len(inloop) > 3 and isinstance(inloop[3], dict) else {}
    sc = unwrap(node.get("scrut") or {})
    resolved = ((sc.get("f") or {}).get("res") or {}).get("resolved") or ""
    if not resolved and str(sc.get("ty") or "").startswith("ipp::value::IppValueIterator"):
        resolved = "<&ipp::value::IppValue as std::iter::IntoIterator>::into_iter"       # (the loop's iterator type says which into_iter it is)
    m = mentions(itv)
    arg = contains[2][1]
    ma = mentions(arg)
    ok = REASONS_C in m["defs"] and PRINTER_GROUP in m["ctors"] and resolved.endswith("ipp::value::IppValue as std::iter::IntoIterator>::into_iter") and \
        "ipp::value::IppValue::as_keyword" in ma["callees"] and any(isinstance(x, tuple) and x[0] == "elem" for x in subterms(arg))
    key = ("loop", id(node))
    if key not in checked:
        checked.add(key)
        run.ob("R-READY", "reasons scan (loop form): every element of printer-state-reasons, read with as_keyword, tested against the keyword list", ok,
               "loop over %s via %s tests %s" % (tshow(itv)[:120], resolved[-60:], tshow(arg)[:120]), site(b, node), key="R-READY|%s|loop-scan" % FN)
    return ok and _scan_const_ok(run, F, contains[2][0][1], T, checked)


def loop_scan_completed(run, F, b, trace, T, checked):
    """True when the path ran such a scanning loop to its end: every iteration that goes on either found no keyword or a keyword outside the list."""
    for t in trace:
        if is_call(t, "<for>") and t[2] and REASONS_C in mentions(t[2][0])["defs"] and isinstance(t[3], dict):
            bodies = t[3].get("paths", [])
            if not bodies:
                return False
            good = True
            for bp in bodies:
                neg_contains = [c for c in bp.conds if c[0] == "if" and c[2] is False and is_call(c[1], "core::slice::<impl [T]>::contains") and c[1][2][0][0] == "def" and
                                _scan_const_ok(run, F, c[1][2][0][1], T, checked) and "ipp::value::IppValue::as_keyword" in mentions(c[1][2][1])["callees"]]
                no_kw = [c for c in bp.conds if c[0] == "match" and is_call(c[1], "ipp::value::IppValue::as_keyword") and opt_polarity(c) is False]
                if not (neg_contains or no_kw):
                    good = False
            return good
    return False


def validate_any(run, F, b, t, T, checked):
    """t = Iterator::any(src, closure). Returns True when recognised as the blocking-reason scan."""
    src, clo = t[2][0], t[2][1]
    st = site(b, t[3] if len(t) > 3 else None)
    if clo[0] != "closure":
        return False
    key = id(clo[1])
    cps = closure_paths(b, clo)
    if len(cps) != 1:
        return False
    r = cps[0].ret
    const = None
    how = None
    if is_call(r, "core::slice::<impl [T]>::contains") and r[2][0][0] == "def":
        const, how = r[2][0][1], "contains"
    elif is_call(r, "std::result::Result::<T, E>::is_ok") and is_call(r[2][0], "core::slice::<impl [T]>::binary_search") and r[2][0][2][0][0] == "def":
        const, how = r[2][0][2][0][1], "binary_search"
    if const is None and is_call(r, "std::iter::Iterator::any") and is_call(r[2][0], "core::slice::<impl [T]>::iter") and r[2][0][2][0][0] == "def" and r[2][1][0] == "closure":
        inner = closure_paths(b, r[2][1])
        if len(inner) == 1 and inner[0].ret[0] == "bin" and inner[0].ret[1] == "Eq":
            const, how = r[2][0][2][0][1], "contains"   # CONST.iter().any(|s| s == k) is a linear membership test
    if const is None:
        if key not in checked:
            checked.add(key)
            run.ob("R-READY", "blocking-keyword membership test recognised", False,
                   "unrecognised membership test in any(): %s (accepted: CONST.contains(..), CONST.binary_search(..).is_ok())" % tshow(r)[:200], st,
                   key="R-READY|%s|membership-test" % FN)
        return False
    if key in checked:
        return True
    checked.add(key)
    val = F.const_value(const)
    c = F.consts.get(const, {})
    cst = "%s:%s (%s)" % (c.get("file"), c.get("line"), const)
    ok = isinstance(val, list) and set(val) == set(T["blocking"])
    missing = sorted(set(T["blocking"]) - set(val or []))
    extra = sorted(set(val or []) - set(T["blocking"]))
    run.ob("R-READY", "blocking keyword constant == the 10-word list", ok, "missing %s, extra %s" % (missing, extra), cst,
           key="R-READY|%s|keyword-set" % const)
    if how == "binary_search" and isinstance(val, list):
        bad = [(val[i], val[i + 1]) for i in range(len(val) - 1) if not val[i].encode() < val[i + 1].encode()]
        run.ob("R-READY", "binary_search over a sorted constant", not bad,
               "constant is searched with binary_search but is not sorted: %s out of order (those keywords can be missed)" % bad[:3], cst,
               key="R-READY|%s|unsorted-binary-search" % const)
    m = mentions(src)
    run.ob("R-READY", "reasons scan: printer-state-reasons of the printer-attributes group",
           REASONS_C in m["defs"] and PRINTER_GROUP in m["ctors"], "scan source: %s" % tshow(src)[:200], st,
           key="R-READY|%s|reasons-source" % FN)
    via_iter = any((node_resolved(n) or "").endswith("ipp::value::IppValue as std::iter::IntoIterator>::into_iter") for n in m["nodes"])
    run.ob("R-READY", "reasons scan goes through IntoIterator for &IppValue", via_iter,
           "the reasons value is not traversed with the value iterator (a single keyword or a set would be missed)", st,
           key="R-READY|%s|reasons-iterator" % FN)
    run.ob("R-READY", "reasons scan reads keywords with as_keyword", "ipp::value::IppValue::as_keyword" in m["callees"],
           "accessors used: %s" % sorted(c for c in m["callees"] if "IppValue::as_" in c), st, key="R-READY|%s|reasons-accessor" % FN)
    return True
