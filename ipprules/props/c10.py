"""C10 - operation builders produce exactly the request their arguments describe (R-OPWIRE, R-BUILDERS).

The wiring of every operation is extracted path-wise from the resolved HIR (helper `with_user_name`
inlined) and compared - as an exact set per path - with tables/ops.json (RFC 8011 + property text):
operation id, target argument, (group, attribute name, value constructor, source field, condition),
payload. Base constructors: version, request-id 1, charset, language, printer-uri iff a target is given.
Builders: constructor defaults, setter effects (replace / accumulate / store), field -> constructor
parameter flow, field liveness."""
import os

from ..engine import VERIF, load_json
from ..facts import show, site, unwrap, walk
from ..symx import simp, all_calls, closure_paths, cshow, paths_of, tshow
from ..terms import display_norm, is_call, mentions, opt_polarity, same, subterms

ADD = "ipp::attribute::IppAttributes::add"
NEWATTR = "ipp::attribute::IppAttribute::new"
NEWREQ = "ipp::request::IppRequestResponse::new"
OPTION_VIEW = {"std::option::Option::<T>::as_ref", "std::option::Option::<T>::as_deref", "std::convert::AsRef::as_ref", "std::option::Option::<T>::clone",
               "std::clone::Clone::clone", "std::convert::Into::into", "std::option::Option::<T>::map", "std::borrow::ToOwned::to_owned",
               "std::string::ToString::to_string", "std::option::Option::<T>::take"}


def self_field(t):
    """field name if t is self.<f> (looking through Some-projection and view wrappers)."""
    while True:
        if isinstance(t, tuple) and t[0] == "proj" and t[2].endswith("Some.0"):
            t = t[1]
        elif isinstance(t, tuple) and t[0] == "call" and t[1] in OPTION_VIEW and t[2]:
            t = t[2][0]
        else:
            break
    if isinstance(t, tuple) and t[0] == "field" and t[1] == ("var", "self"):
        return t[2]
    return None


def param_of(t):
    while isinstance(t, tuple) and t[0] == "call" and t[1] in OPTION_VIEW and t[2]:
        t = t[2][0]
    if isinstance(t, tuple) and t[0] == "var":
        return t[1]
    return None


def field_cond(conds, field):
    """-> True (Some / non-empty), False, or None if the path never examined the field."""
    res = None
    for c in conds:
        if c[0] == "match" and self_field(c[1]) == field and opt_polarity(c) is not None:
            res = opt_polarity(c)          # `Some(x) =>`, `None =>`, let-else, if-let / else
        if c[0] == "if":
            t, pol = c[1], c[2]
            while isinstance(t, tuple) and t[0] == "un" and t[1] == "Not":
                t, pol = t[2], not pol
            if is_call(t) and t[1].endswith("::is_empty") and self_field(t[2][0]) == field:
                res = not pol
            if is_call(t) and t[1].endswith("::is_some") and self_field(t[2][0]) == field:
                res = pol
            if is_call(t) and t[1].endswith("::is_none") and self_field(t[2][0]) == field:
                res = not pol
            # `v.len() == 0` / `v.len() != 0` / `v.len() > 0` / `0 < v.len()`
            if isinstance(t, tuple) and t[0] == "bin" and t[1] in ("Eq", "Ne", "Gt", "Lt", "Ge", "Le"):
                a, b, op = t[2], t[3], t[1]
                if b[0] != "lit" and a[0] == "lit":
                    a, b = b, a
                    op = {"Gt": "Lt", "Lt": "Gt", "Ge": "Le", "Le": "Ge"}.get(op, op)
                if is_call(a) and a[1].endswith("::len") and self_field(a[2][0]) == field and b[0] == "lit":
                    nonempty = {("Eq", 0): False, ("Ne", 0): True, ("Gt", 0): True, ("Ge", 1): True, ("Lt", 1): False, ("Le", 0): False}.get((op, b[1]))
                    if nonempty is not None:
                        res = nonempty if pol else not nonempty
    return res


def wiring_of_add(t, conds, names):
    """Describe one IppAttributes::add call as a comparable tuple."""
    grp = t[2][1]
    g = grp[1].split("::")[-1] if grp[0] == "ctor" else tshow(grp)
    a = t[2][2]
    if isinstance(a, tuple) and a[0] == "elem":
        f = self_field(a[1] if not is_call(a[1]) else a[1][2][0])
        return ("each", g, f)
    if is_call(a, NEWATTR):
        n, v = a[2][0], a[2][1]
        name = names.get(n[1], n[1]) if n[0] == "def" else (n[1] if n[0] == "lit" else tshow(n))
        if v[0] == "ctor":
            ctor = v[1].split("::")[-1]
            src = v[2][0] if v[2] else None
            if ctor == "Array" and src is not None:
                m = mentions(src)
                f = None
                for x in subterms(src):
                    if self_field(x):
                        f = self_field(x)
                elem = sorted(c.split("::")[-1] for c in m["defs"] | m["ctors"] if c.startswith("ipp::value::IppValue::"))
                return ("attr", g, name, "Array", f, tuple(elem))
            return ("attr", g, name, ctor, self_field(src) if src is not None else None, ())
        return ("attr", g, name, tshow(v)[:60], None, ())
    return ("other", g, tshow(a)[:80])


def check_operation(run, F, ty, spec, T, inline):
    fn = "<%s as ipp::operation::IppOperation>::into_ipp_request" % ty
    b = F.body(fn)
    if b is None:
        run.anchor_lost("R-OPWIRE", fn)
        return 0
    paths = paths_of(b, inline=inline)
    short = ty.split("::")[-1]
    n_w = 0
    for p in paths:
        calls = list(all_calls(p))
        pc = " && ".join(cshow(c) for c in p.conds)[:160]
        bases = [t for t, _ in calls if t[1] == NEWREQ]
        if len(bases) != 1:
            run.ob("R-OPWIRE", "%s: one base request" % short, False, "%d calls of IppRequestResponse::new" % len(bases), site(b), key="R-OPWIRE|%s|base" % ty)
            continue
        base = bases[0]
        ver, op, uri = base[2]
        run.ob("R-OPWIRE", "%s: operation id" % short, op == ("ctor", "ipp::model::Operation::" + spec["op"], []),
               "operation constant is %s, expected Operation::%s" % (tshow(op), spec["op"]), site(b, base[3]), key="R-OPWIRE|%s|op-id" % ty)
        run.ob("R-OPWIRE", "%s: version = self.version()" % short, is_call(ver, "ipp::operation::IppOperation::version") and ver[2][0] == ("var", "self"),
               "version argument is %s" % tshow(ver), site(b, base[3]), key="R-OPWIRE|%s|version" % ty)
        if spec["uri"] is None:
            oku = uri[0] == "ctor" and uri[1].endswith("::None")
        else:
            oku = uri[0] == "ctor" and uri[1].endswith("::Some") and uri[2] and self_field(uri[2][0]) == spec["uri"] and uri[2][0][0] == "field"
        run.ob("R-OPWIRE", "%s: target uri argument" % short, oku, "uri argument is %s, expected %s" % (tshow(uri), spec["uri"]), site(b, base[3]),
               key="R-OPWIRE|%s|uri" % ty)
        run.ob("R-OPWIRE", "%s: returns the request it built" % short, p.ret is base or same(p.ret, base), "returns %s" % tshow(p.ret)[:120], site(b),
               key="R-OPWIRE|%s|return" % ty)
        got = set()
        # values modified in place (a `&mut self` method call on them) before they are wrapped into an attribute
        mutated = {}
        for t, _c in calls:
            node = t[3] if len(t) > 3 and isinstance(t[3], dict) else {}
            if node.get("k") == "mcall" and t[2] and any("Mut" in a.get("a", "") for a in (node["recv"].get("adj") or [])):
                mutated[tshow(t[2][0])] = t
        for t, conds in calls:
            if t[1] != ADD:
                continue
            a_ = t[2][2]
            if is_call(a_, NEWATTR) and a_[2][1][0] == "ctor" and a_[2][1][2]:
                src_txt = tshow(a_[2][1][2][0])
                if src_txt in mutated:
                    m = mutated[src_txt]
                    run.ob("R-OPWIRE", "%s: attribute value is the argument, unmodified" % short, False,
                           "the value of %s is modified in place by %s before it is sent" % (tshow(a_[2][0])[:50], m[1]), site(b, m[3]),
                           key="R-OPWIRE|%s|mutated-source|%s" % (ty, m[1].split("::")[-1]))
            recv = t[2][0]
            on_base = is_call(recv, "ipp::request::IppRequestResponse::attributes_mut") and (recv[2][0] is base or same(recv[2][0], base))
            if not on_base:
                run.ob("R-OPWIRE", "%s: add targets the request being built" % short, False, "add on %s" % tshow(recv)[:120], site(b, t[3]),
                       key="R-OPWIRE|%s|add-target" % ty)
            got.add(wiring_of_add(t, conds, T["names"]))
        want = set()
        unknown = []
        for w in spec["wirings"]:
            if "each" in w:
                # a loop over the field: present on every path (the loop itself handles emptiness)
                want.add(("each", w["group"], w["each"]))
                continue
            item = ("attr", w["group"], w["name"], w["ctor"], w["src"], tuple([w["elem_ctor"]] if "elem_ctor" in w else []))
            if w["when"] == "always":
                want.add(item)
            else:
                fc = field_cond(p.conds, w["src"])
                if fc is None:
                    unknown.append(w["src"])
                elif fc:
                    want.add(item)
        n_w += len(want)
        for f in unknown:
            run.ob("R-OPWIRE", "%s: path examines optional field %s" % (short, f), False,
                   "optional source field %s is not tested on path [%s]; its attribute would be sent unconditionally or never" % (f, pc), site(b),
                   key="R-OPWIRE|%s|%s|untested" % (ty, f))
        missing, extra = want - got, got - want
        run.ob("R-OPWIRE", "%s: attributes == table [%s]" % (short, pc), not missing and not extra,
               "missing %s; unexpected %s" % (sorted(map(str, missing)), sorted(map(str, extra))), site(b), key="R-OPWIRE|%s|wiring" % ty)
        # payload
        assigns = [t for t, _ in calls if t[1] == "<assign>" and "payload_mut" in str(t[2][0][1])]
        if spec.get("payload"):
            okp = len(assigns) == 1 and self_field(assigns[0][2][1]) == spec["payload"] and assigns[0][2][1][0] == "field"
            run.ob("R-OPWIRE", "%s: payload attached unmodified" % short, okp, "payload assignment: %s" % [tshow(a)[:100] for a in assigns], site(b),
                   key="R-OPWIRE|%s|payload" % ty)
        else:
            run.ob("R-OPWIRE", "%s: no payload" % short, not assigns, "unexpected payload assignment", site(b), key="R-OPWIRE|%s|payload" % ty)
    return n_w


def check_base(run, F, T):
    # IppHeader::new: parameter -> field, no crossing
    hb = F.body("ipp::IppHeader::new")
    if hb is None:
        run.anchor_lost("R-OPWIRE", "ipp::IppHeader::new")
    else:
        for p in paths_of(hb):
            r = p.ret
            ok = r[0] == "ctor" and isinstance(r[2], dict) and all(r[2].get(f) == ("var", f) for f in ("version", "operation_or_status", "request_id"))
            run.ob("R-OPWIRE", "IppHeader::new stores each parameter in its field", ok, tshow(r)[:160], site(hb), key="R-OPWIRE|ipp::IppHeader::new|fields")
    for fn, second, idterm in ((NEWREQ, "operation", ("lit", T["base"]["request_id"])), ("ipp::request::IppRequestResponse::new_response", "status", ("var", "id"))):
        b = F.body(fn)
        if b is None:
            run.anchor_lost("R-OPWIRE", fn)
            continue
        short = fn.split("::")[-1]
        for p in paths_of(b):
            calls = list(all_calls(p))
            hdrs = [t for t, _ in calls if t[1] == "ipp::IppHeader::new"]
            okh = len(hdrs) == 1 and hdrs[0][2][0] == ("var", "version") and hdrs[0][2][1][0] == "cast" and hdrs[0][2][1][2] == ("var", second) and hdrs[0][2][2] == idterm
            run.ob("R-OPWIRE", "%s: header = (version, %s as u16, %s)" % (short, second, tshow(idterm)), okh, [tshow(h)[:140] for h in hdrs], site(b),
                   key="R-OPWIRE|%s|header" % fn)
            got = set()
            for t, conds in calls:
                if t[1] == ADD:
                    a = t[2][2]
                    g = t[2][1][1].split("::")[-1] if t[2][1][0] == "ctor" else "?"
                    if is_call(a, NEWATTR) and a[2][0][0] == "def":
                        v = a[2][1]
                        val = None
                        if v[0] == "ctor" and v[2]:
                            inner = display_norm(v[2][0])
                            val = inner[1] if inner[0] == "lit" else ("<uri>" if is_call(inner, "ipp::util::canonicalize_uri") else tshow(inner)[:60])
                        got.add((g, T["names"].get(a[2][0][1], a[2][0][1]), v[1].split("::")[-1] if v[0] == "ctor" else "?", val))
                    else:
                        got.add((g, tshow(a)[:60], "?", None))
            want = {("OperationAttributes", "attributes-charset", "Charset", T["base"]["charset"]),
                    ("OperationAttributes", "attributes-natural-language", "NaturalLanguage", T["base"]["language"])}
            has_uri = None
            for c in p.conds:
                if c[0] == "match" and c[1] == ("var", "uri"):
                    has_uri = opt_polarity(c)
            if fn == NEWREQ:
                if has_uri:
                    want.add(("OperationAttributes", "printer-uri", "Uri", "<uri>"))
                run.ob("R-OPWIRE", "%s: path examines the target" % short, has_uri is not None, "uri parameter not tested", site(b), key="R-OPWIRE|%s|uri-test" % fn)
            run.ob("R-OPWIRE", "%s: charset utf-8, language en%s and nothing else" % (short, ", printer-uri" if has_uri else ""), got == want,
                   "missing %s; unexpected %s" % (sorted(map(str, want - got)), sorted(map(str, got - want))), site(b), key="R-OPWIRE|%s|base-attrs" % fn)
            r = p.ret
            if fn == NEWREQ:
                okr = r[0] == "ctor" and isinstance(r[2], dict) and hdrs and (r[2].get("header") is hdrs[0] or same(r[2].get("header"), hdrs[0])) and \
                    is_call(r[2].get("payload"), "ipp::payload::IppPayload::empty")
                run.ob("R-OPWIRE", "%s: result carries that header and an empty payload" % short, okr, tshow(r)[:160], site(b), key="R-OPWIRE|%s|result" % fn)
    # version default
    vb = F.body("ipp::operation::IppOperation::version")
    v11 = F.body("ipp::model::IppVersion::v1_1")
    if vb is None or v11 is None:
        run.anchor_lost("R-OPWIRE", "IppOperation::version / IppVersion::v1_1")
    else:
        r = paths_of(vb)[0].ret
        run.ob("R-OPWIRE", "default version() = IppVersion::v1_1()", is_call(r, "ipp::model::IppVersion::v1_1"), tshow(r), site(vb), key="R-OPWIRE|version-default")
        r = paths_of(v11)[0].ret
        r = simp(r)         # constant arithmetic folded: 0x0101, (1 << 8) | 1 and u16::from_be_bytes([1, 1]) are the same number
        run.ob("R-OPWIRE", "IppVersion::v1_1() = 0x0101", r == ("ctor", "ipp::model::IppVersion", [("lit", T["base"]["version_default"])]), tshow(r), site(v11),
               key="R-OPWIRE|v1_1")
    for imp in F.impls:
        if imp.get("trait") == "ipp::operation::IppOperation":
            items = sorted(i["name"] for i in imp["items"])
            run.ob("R-OPWIRE", "%s does not override version()" % imp["self"], items == ["into_ipp_request"], "impl items %s" % items,
                   "%s:%s" % (imp["file"], imp["line"]), key="R-OPWIRE|%s|version-override" % imp["self"])
    fb = F.body("ipp::operation::<impl std::convert::From<T> for ipp::request::IppRequestResponse>::from")
    if fb is None:
        run.anchor_lost("R-OPWIRE", "From<T: IppOperation> for IppRequestResponse")
    else:
        r = paths_of(fb)[0].ret
        run.ob("R-OPWIRE", "From<T: IppOperation> = into_ipp_request", is_call(r, "ipp::operation::IppOperation::into_ipp_request") and r[2][0] == ("var", "op"), tshow(r), site(fb),
               key="R-OPWIRE|from-op")


def check_ctor(run, F, fn, mapping):
    b = F.body(fn)
    if b is None:
        run.anchor_lost("R-BUILDERS", fn)
        return
    for p in paths_of(b):
        r = p.ret
        fields = r[2] if (r[0] == "ctor" and isinstance(r[2], dict)) else (dict((str(i), v) for i, v in enumerate(r[2])) if r[0] == "ctor" else {})
        for f, par in mapping.items():
            v = fields.get(f)
            if par is None:
                ok = v is not None and (is_call(v) and v[1].endswith("::new") and not v[2])
                run.ob("R-BUILDERS", "%s: field %s starts empty" % (fn, f), ok, tshow(v), site(b), key="R-BUILDERS|%s|%s" % (fn, f))
            else:
                pars = {x[1] for x in subterms(v) if x[0] == "var"} if v is not None else set()
                cl = [x for x in subterms(v) if x[0] == "closure"] if v is not None else []
                if not pars and v is not None and v[0] == "ctor" and v[1].endswith("::None") and \
                        any(c[0] == "match" and c[1] == ("var", par) and opt_polarity(c) is False for c in p.conds):
                    pars = {par}        # `None` on the path where the parameter itself is None (`match p { Some(x) => Some(f(x)), None => None }` is `p.map(f)`)
                run.ob("R-BUILDERS", "%s: field %s <- parameter %s" % (fn, f, par), pars == {par},
                       "field %s is built from %s" % (f, sorted(pars) or tshow(v)), site(b), key="R-BUILDERS|%s|%s" % (fn, f))
        extra = set(fields) - set(mapping)
        run.ob("R-BUILDERS", "%s: no unlisted fields" % fn, not extra, "fields not in the table: %s" % sorted(extra), site(b), key="R-BUILDERS|%s|extra" % fn)


def check_builder(run, F, bty, spec, T):
    adt = F.adts.get(bty)
    if adt is None:
        run.anchor_lost("R-BUILDERS", bty)
        return 0
    fields = [f["name"] for f in adt["variants"][0]["fields"]]
    # build(): field -> constructor parameter
    bb = F.body(bty + "::build")
    target = spec["target"]
    tb = F.body(target)
    if bb is None or tb is None:
        run.anchor_lost("R-BUILDERS", bty + "::build / " + target)
        return 0
    tparams = [p.get("name") for p in tb["params"]]
    used = set()
    for p in paths_of(bb):
        r = p.ret
        ctor_calls = [x for x in subterms(r) if is_call(x, target)]
        ok = len(ctor_calls) == 1
        run.ob("R-BUILDERS", "%s::build constructs via %s" % (bty.split("::")[-1], target.split("::")[-2] + "::" + target.split("::")[-1]), ok,
               tshow(r)[:160], site(bb), key="R-BUILDERS|%s|target" % bty)
        if not ok:
            continue
        cc = ctor_calls[0]
        for i, a in enumerate(cc[2]):
            pname = tparams[i] if i < len(tparams) else "?"
            want_field = spec["args"].get(pname)
            f = self_field(a)
            used.add(f)
            run.ob("R-BUILDERS", "%s::build: %s <- self.%s" % (bty.split("::")[-1], pname, want_field), f == want_field,
                   "constructor parameter %s receives %s" % (pname, tshow(a)[:100]), site(bb, cc[3]), key="R-BUILDERS|%s|arg|%s" % (bty, pname))
        if spec.get("fold"):
            # loop form (a `for` statement, or fold / for_each, which the path builder writes as the same loop): one loop over self.<list> in order,
            # every iteration adds the element to the constructed operation, and the operation that carried the additions is returned
            loops = [t for t in p.trace if is_call(t, "<for>") and len(t) > 3 and isinstance(t[3], dict)]

            def over(t):
                it = t[2][0]
                while is_call(it) and it[1].split("::")[-1] in ("into_iter", "iter", "drain") and it[2]:
                    it = it[2][0]
                return self_field(it)
            mine = [t for t in loops if over(t) == spec["fold"]]
            okf = len(mine) == 1 and not any(is_call(x) and x[1].split("::")[-1] in ("rev", "skip", "take", "step_by", "filter", "filter_map") for x in subterms(mine[0][2][0]))
            add_ok = False
            if okf:
                bodies = mine[0][3]["paths"]
                def adds(bp):
                    calls = [t2 for t2, _c in all_calls(bp) if is_call(t2) and t2[1].endswith("::add_attribute")]
                    return len(calls) == 1 and any(x[0] == "elem" for x in subterms(calls[0][2][1])) and (calls[0][2][0] is cc or same(calls[0][2][0], cc) or
                                                                                                          calls[0][2][0][0] in ("var", "phi"))
                add_ok = bool(bodies) and all(adds(bp) and bp.kind == "fall" for bp in bodies)
                core = r
                if core[0] == "phi":
                    core = core[1]
                okf = core is cc or same(core, cc)
            used.add(spec["fold"])
            run.ob("R-BUILDERS", "%s::build folds self.%s with add_attribute, in order" % (bty.split("::")[-1], spec["fold"]), okf and add_ok,
                   tshow(r)[:200], site(bb), key="R-BUILDERS|%s|fold" % bty)
        else:
            run.ob("R-BUILDERS", "%s::build returns the constructed operation" % bty.split("::")[-1], r is cc or same(r, cc), tshow(r)[:160], site(bb),
                   key="R-BUILDERS|%s|result" % bty)
    dead = [f for f in fields if f not in used]
    run.ob("R-BUILDERS", "%s: every field is read by build()" % bty.split("::")[-1], not dead, "fields never forwarded: %s" % dead, site(bb),
           key="R-BUILDERS|%s|liveness" % bty)
    # new(): defaults
    nb = F.body(bty + "::new")
    if nb is None:
        run.anchor_lost("R-BUILDERS", bty + "::new")
    else:
        for p in paths_of(nb):
            r = p.ret
            d = r[2] if (r[0] == "ctor" and isinstance(r[2], dict)) else {}
            for f in fields:
                v = d.get(f)
                init = spec["init"].get(f, "param")
                if init == "param":
                    ok = v == ("var", f)
                elif init == "None":
                    ok = v is not None and v[0] == "ctor" and v[1].endswith("::None")
                elif init == "empty":
                    ok = is_call(v) and v[1].endswith("::new") and not v[2]
                else:
                    ok = v == ("lit", init)
                run.ob("R-BUILDERS", "%s::new: %s = %s" % (bty.split("::")[-1], f, init), ok, "initialised with %s" % tshow(v), site(nb),
                       key="R-BUILDERS|%s|init|%s" % (bty, f))
    # setters
    for sname, (field, mode) in spec["setters"].items():
        sb = F.body("%s::%s" % (bty, sname))
        if sb is None:
            run.anchor_lost("R-BUILDERS", "%s::%s" % (bty, sname))
            continue
        arg = sb["params"][1].get("name")
        self_id = sb["params"][0].get("id")
        for p in paths_of(sb):
            ok, why = False, ""
            if mode in ("replace", "store"):
                v = p.env.get((self_id, field))
                if mode == "replace":
                    ok = v is not None and v[0] == "ctor" and v[1].endswith("::Some") and param_of(v[2][0]) == arg
                else:
                    ok = v == ("var", arg)
                why = "self.%s = %s" % (field, tshow(v))
                others = [k for k in p.env if isinstance(k, tuple) and k[0] == self_id and k[1] != field]
                ok = ok and not others
            else:
                want = "std::vec::Vec::<T, A>::push" if mode == "push" else "std::iter::Extend::extend"
                cs = [t for t in p.trace if is_call(t) and t[1] in (want,)]
                ok = len(cs) == 1 and self_field(cs[0][2][0]) == field and any(x == ("var", arg) for x in subterms(cs[0][2][1]))
                if not ok and mode == "extend" and not cs:
                    # `for x in arg { self.field.push(f(x)) }` extends the list by the same elements in the same order
                    loops = [t for t in p.trace if is_call(t, "<for>") and any(x == ("var", arg) for x in subterms(t[2][0]))]
                    if len(loops) == 1:
                        bps = loops[0][3].get("paths", [])
                        pushes = [t for bp in bps for t in bp.trace if is_call(t, "std::vec::Vec::<T, A>::push")]
                        ok = len(bps) == 1 and not bps[0].conds and bps[0].kind == "fall" and len(pushes) == 1 and self_field(pushes[0][2][0]) == field and \
                            any(isinstance(x, tuple) and x[0] == "elem" for x in subterms(pushes[0][2][1]))
                why = [tshow(t)[:120] for t in p.trace if is_call(t)]
                bad = [t for t in p.trace if is_call(t) and t[1] in ("std::vec::Vec::<T, A>::clear", "<assign>")]
                ok = ok and not bad
            run.ob("R-BUILDERS", "%s::%s %ss self.%s" % (bty.split("::")[-1], sname, mode, field), ok and p.ret == ("var", "self"), why, site(sb),
                   key="R-BUILDERS|%s|setter|%s" % (bty, sname))
    return len(fields)


LIST_REORDER = {"sort", "sort_by", "sort_by_key", "sort_unstable", "sort_unstable_by", "sort_unstable_by_key", "sort_by_cached_key", "reverse", "dedup", "dedup_by",
                "dedup_by_key", "retain", "retain_mut", "swap", "swap_remove", "rotate_left", "rotate_right", "truncate", "drain", "split_off", "pop", "remove", "clear"}


def check_operation_types(run, F, rule="R-BUILDERS"):
    """Type-level part of the wiring: the fields that carry the caller's lists keep order and multiplicity (Vec), optional scalars are Option of
    the parameter's own type (no NonZero / narrowed / set types that cannot represent every argument)."""
    n = 0
    for path, a in sorted(F.adts.items()):
        if not path.startswith("ipp::operation::"):
            continue
        for v in a["variants"]:
            for f in v["fields"]:
                ty = f["ty"]
                n += 1
                bad = [w for w in ("BTreeSet", "HashSet", "BTreeMap", "HashMap", "NonZero", "BinaryHeap", "VecDeque", "Cow<") if w in ty]
                run.ob(rule, "%s.%s: field type keeps every argument as given" % (path.split("::", 2)[-1], f["name"]), not bad,
                       "field type %s: a %s cannot hold what the caller passed in the order / multiplicity / value it was passed (sets sort and de-duplicate, NonZero cannot hold 0)" % (
                           ty[:100], "/".join(bad)), "%s:%s" % (a["file"], a["line"]), key="%s|type|%s.%s" % (rule, path, f["name"]))
    for path, body in F.hir.items():
        if not path.startswith("ipp::operation::") or "::tests::" in path:
            continue
        for x in walk(body["body"]):
            if x.get("k") == "mcall" and x["name"] in LIST_REORDER and str(unwrap(x["recv"]).get("ty") or "").replace("&mut ", "").replace("&", "").startswith(("std::vec::Vec<", "[")):
                run.ob(rule, "%s: the caller's lists are passed on in the order given" % path.split("::", 2)[-1], False,
                       "%s on %s: %s (reordering or dropping elements changes which of two same-named attributes wins, and the order on the wire)" % (
                           x["name"], unwrap(x["recv"]).get("ty"), show(x)[:100]), site(body, x), key="%s|reorder|%s|%s" % (rule, path, x["name"]))
    return n


def check(run, views, tier):
    T = load_json(os.path.join(VERIF, "tables", "ops.json"))
    run.explanation = (
        "R-OPWIRE / R-BUILDERS: for each of the 10 operations the set of (group, attribute name constant evaluated by the "
        "compiler, value constructor, source field) additions is extracted per syntactic path and must equal - not merely "
        "contain - the row of tables/ops.json selected by the path's conditions on the optional fields; operation constant, "
        "version, target argument, payload assignment likewise. Base constructors: header (version, code, request-id 1 / "
        "given id), charset utf-8, language en, printer-uri iff a target is given. Builders: defaults, setter effect class, "
        "field->parameter flow by parameter *name* of the resolved constructor, field liveness, entry points.")
    run.trusted = ["HashMap::insert replaces by key (last wins)", "Vec::push / Extend::extend keep order", "Iterator::fold visits in order"]
    run.not_decided = ["payload bytes through the stream (C08)", "emission order (C09)"]
    for cfg, crates in views.items():
        run.cfg = cfg
        F = crates["ipp"]
        check_operation_types(run, F)
        from .c19 import check_attribute_ctor
        check_attribute_ctor(run, F, rule="R-OPWIRE")
        from . import c09 as _c09
        _saved = (run.explanation, list(run.trusted), list(run.not_decided))
        _c09.check(run, {cfg: {"ipp": F}}, tier, with_ops=False)
        run.explanation, run.trusted, run.not_decided = _saved
        run.cfg = cfg
        # attribute name constants
        for cpath, val in T["names"].items():
            run.ob("R-OPWIRE", "%s = '%s'" % (cpath.split("::")[-1], val), F.const_value(cpath) == val, "evaluates to %r" % F.const_value(cpath),
                   key="R-OPWIRE|name|%s" % cpath)
        inline = {p: b for p, b in F.hir.items() if p.startswith("ipp::operation::") and b["kind"] == "Fn" and p.count("::") == 2}
        n_w = 0
        for ty, spec in T["operations"].items():
            n_w += check_operation(run, F, ty, spec, T, inline)
        run.floor("R-OPWIRE", n_w, 17, "attribute wirings over all operation paths")
        check_base(run, F, T)
        for fn, mapping in T["constructors"].items():
            check_ctor(run, F, fn, mapping)
        nf = 0
        for bty, spec in T["builders"].items():
            nf += check_builder(run, F, bty, spec, T)
        run.floor("R-BUILDERS", nf, 25, "builder fields")
        # entry points
        for fn, (target, args) in T["entry_points"].items():
            b = F.body(fn)
            if b is None:
                run.anchor_lost("R-BUILDERS", fn)
                continue
            r = paths_of(b)[0].ret
            ok = is_call(r, target) and [a for a in r[2]] == [("var", a) for a in args]
            run.ob("R-BUILDERS", "%s -> %s(%s)" % (fn.split("::")[-1], target.split("::")[-2], ", ".join(args)), ok, tshow(r)[:160], site(b),
                   key="R-BUILDERS|entry|%s" % fn)
        # "the last one given wins per name": the container's add must replace by name (shared with C19)
        from .c19 import check_add
        check_add(run, F, prefix="R-CONTAINER")
        # "the target as canonical printer-uri": the canonicalisation clause of C13
        from . import c13
        saved1 = (run.explanation, run.trusted, run.not_decided)
        c13.check(run, {cfg: crates}, tier)
        run.explanation, run.trusted, run.not_decided = saved1
        run.cfg = cfg
        # every IppOperation impl is in the table (an added operation must be reviewed)
        for imp in F.impls:
            if imp.get("trait") == "ipp::operation::IppOperation":
                run.ob("R-OPWIRE", "operation %s is in the table" % imp["self"], imp.get("self_adt") in T["operations"], "IppOperation impl not listed in tables/ops.json",
                       "%s:%s" % (imp["file"], imp["line"]), key="R-OPWIRE|unlisted|%s" % imp["self"])
