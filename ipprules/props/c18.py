"""C18 - `ipputil print` sends the file unchanged, types options, honours the state check
(R-PRINTGATE and wiring). Structural clauses over the `ipputil` binary crate (cfg A) and the library's
text-to-value classifier; bytes on the wire / exit status / clap's own parsing are not decided."""
import re

from ..facts import callee, show, site, unwrap, walk
from ..symx import TooManyPaths, all_calls, closure_paths, cshow, paths_of, simp, tshow
from ..terms import display_norm, is_call, mentions, opt_polarity, same, subterms

CMD = ("var", "cmd")


def suffix(t, *names):
    return is_call(t) and any(t[1].endswith(n) for n in names)


def truth(t, pol):
    while isinstance(t, tuple) and t[0] == "un" and t[1] == "Not":
        t, pol = t[2], not pol
    return t, pol


def field_of(t, base, name):
    return isinstance(t, tuple) and t[0] == "field" and t[1] == base and t[2] == name


def unwrap_ok(t):
    while isinstance(t, tuple) and t[0] in ("ok?", "await"):
        t = t[1]
    return t


def status_gate(run, U, fn, rule="R-PRINTGATE"):
    """Every Ok(()) path of a do_* command: every send is `?`-propagated and the last response's status was tested successful;
    the not-successful branch returns Err(StatusError(status))."""
    b = U.body(fn)
    if b is None:
        run.anchor_lost(rule, fn)
        return None, []
    try:
        paths = paths_of(b)
    except TooManyPaths:
        run.ob(rule, "%s analysable" % fn, False, "too many paths", site(b))
        return b, []
    for p in paths:
        sends = [t for t in p.trace if suffix(t, "::IppClient::send")]
        if p.kind == "try":
            continue
        r = p.ret
        is_ok = r[0] == "ctor" and r[1].endswith("::Ok")
        gate = None
        for c in p.conds:
            if c[0] in ("if", "guard"):
                t, pol = truth(c[1], c[2])
                if suffix(t, "::StatusCode::is_success") and sends and any(x is sends[-1] or same(x, sends[-1]) for x in subterms(t)):
                    gate = pol
        if is_ok:
            run.ob(rule, "%s: Ok only after a send" % fn, len(sends) >= 1, "returns Ok without any exchange", site(b), key="%s|%s|ok-without-send" % (rule, fn))
            run.ob(rule, "%s: Ok only when the last response's status is successful" % fn, gate is True,
                   "Ok(()) with status gate=%s [%s]" % (gate, " && ".join(cshow(c) for c in p.conds)[-200:]), site(b), key="%s|%s|status-gate" % (rule, fn))
            for s in sends:
                propagated = any(c[0] == "if" and is_call(c[1], "<is_err>") and c[2] is False and (c[1][2][0] is s or same(c[1][2][0], s)) for c in p.conds)
                run.ob(rule, "%s: send result propagated with ?" % fn, propagated, "a send's error is not propagated on an Ok path", site(b, s[3]),
                       key="%s|%s|send-unpropagated" % (rule, fn))
        elif gate is False:
            ok = r[0] == "ctor" and r[1].endswith("::Err") and r[2] and r[2][0][0] == "ctor" and r[2][0][1].endswith("IppError::StatusError") and \
                suffix(r[2][0][2][0], "::status_code")
            run.ob(rule, "%s: unsuccessful IPP status -> Err(StatusError(status))" % fn, ok, tshow(r)[:120], site(b), key="%s|%s|status-error" % (rule, fn))
    return b, paths


def parse_target(t):
    """T when the term is `text.parse::<T>()` or `T::from_str(text)` (the same conversion), else None."""
    if not is_call(t):
        return None
    node = t[3] if len(t) > 3 and isinstance(t[3], dict) else {}
    if str(t[1]).endswith("::parse"):
        return (node.get("gargs") or ["?"])[0]
    if t[1] == "std::str::FromStr::from_str":
        return (((node.get("f") or {}).get("res") or {}).get("args") or node.get("gargs") or ["?"])[0]
    return None


def check(run, views, tier):
    run.explanation = (
        "R-PRINTGATE: path-wise analysis of ipputil's do_print_job: every path on which the Print-Job request is sent assumes "
        "either `no_check_state` or a successful `is_printer_ready(&response)? == true` on the response of a preceding "
        "Get-Printer-Attributes exchange with the same client (a cut set of the send); the not-ready branch returns "
        "Err(PrinterNotReady). Wiring: job_name -> job_title, user_name -> user_name, every option split at the first '=' into "
        "(name, value.parse::<IppValue>()), payload = IppPayload::new(BufReader::new(file | stdin)); every exchange is "
        "`?`-propagated and followed by the status gate; main propagates every command. `<IppValue as FromStr>`: true/false -> "
        "Boolean, i32 -> Integer, else Keyword. The clap derive output is audited for value-splitting / defaulting options on "
        "the print command. The readiness helper itself is C17 (its rules are re-run here).")
    run.trusted = ["clap's command-line parsing", "std Termination: Err from main -> non-zero exit status", "BufReader / File / stdin deliver the bytes unchanged",
                   "str::split_once splits at the first occurrence", "the blocking client (C11) and the payload bridge (C08)"]
    run.not_decided = ["that the file's bytes arrive unchanged end to end (needs the built binary and a peer)", "exit-status mapping (std Termination)",
                       "what clap does with a command line beyond the audited Arg options"]
    for cfg, crates in views.items():
        run.cfg = cfg
        if "ipputil" not in crates:
            continue
        U = crates["ipputil"]
        F = crates["ipp"]
        b, paths = status_gate(run, U, "ipputil::do_print_job")
        if b is None:
            continue
        run.floor("R-PRINTGATE", len(paths), 4, "paths through do_print_job")
        n_print = 0
        for p in paths:
            calls = list(all_calls(p))
            sends = [t for t, _ in calls if suffix(t, "::IppClient::send")]
            prints = [s for s in sends if any(suffix(x, "::IppOperationBuilder::print_job") for x in subterms(s[2][1]))]
            queries = [s for s in sends if any(suffix(x, "::IppOperationBuilder::get_printer_attributes") for x in subterms(s[2][1]))]
            unknown = [s for s in sends if s not in prints and s not in queries]
            run.ob("R-PRINTGATE", "every exchange is a state query or the print job", not unknown, [tshow(s[2][1])[:80] for s in unknown], site(b),
                   key="R-PRINTGATE|ipputil::do_print_job|other-exchange")
            nocheck = None
            ready = None
            for c in p.conds:
                if c[0] != "if":
                    continue
                t, pol = truth(c[1], c[2])
                if field_of(t, CMD, "no_check_state"):
                    nocheck = pol
                inner = unwrap_ok(t)
                if suffix(inner, "::is_printer_ready"):
                    arg = unwrap_ok(inner[2][0])
                    from_query = bool(queries) and (arg is queries[-1] or same(arg, queries[-1]))
                    ready = pol if from_query else "other-response"
            pc = " && ".join(cshow(c) for c in p.conds)
            if prints:
                n_print += 1
                gated = (nocheck is True) or (ready is True)
                run.ob("R-PRINTGATE", "print job sent only when the check is off or the printer was found ready", gated,
                       "Print-Job is sent with no_check_state=%s, is_printer_ready=%s [%s]" % (nocheck, ready, pc[:300]), site(b, prints[0][3]),
                       key="R-PRINTGATE|ipputil::do_print_job|ungated")
                if nocheck is False:
                    run.ob("R-PRINTGATE", "with the check on, the printer is queried first with the same client", len(queries) == 1 and
                           same(queries[0][2][0], prints[0][2][0]) and p.trace.index(queries[0]) < p.trace.index(prints[0]), "queries=%d" % len(queries), site(b),
                           key="R-PRINTGATE|ipputil::do_print_job|query-first")
                for q in queries:
                    # the state query must ask for everything, or at least for what the readiness helper reads
                    filt = [x for x in subterms(q[2][1]) if is_call(x) and "GetPrinterAttributesBuilder::" in x[1] and x[1].split("::")[-1] in ("attribute", "attributes")]
                    names, opaque = set(), False
                    for x in filt:
                        for a in x[2][1:]:
                            lits = [y[1] for y in subterms(a) if y[0] == "lit" and isinstance(y[1], str)]
                            consts = [y for y in subterms(a) if y[0] == "def"]
                            for y in consts:
                                v = F.const_value(y[1]) if hasattr(F, "const_value") else None
                                if isinstance(v, str):
                                    lits.append(v)
                                else:
                                    opaque = True
                            if not lits:
                                opaque = True
                            names |= set(lits)
                    need = {"printer-state", "printer-state-reasons"}
                    ok = not filt or (not opaque and need <= names) or ("all" in names and not opaque)
                    run.ob("R-PRINTGATE", "the state query requests all attributes, or at least printer-state and printer-state-reasons", ok,
                           "the Get-Printer-Attributes query restricts requested-attributes to %s%s: the readiness helper reads %s" % (sorted(names), " (+ non-literal names)" if opaque else "", sorted(need)),
                           site(b, q[3]), key="R-PRINTGATE|ipputil::do_print_job|query-attributes")
                if nocheck is True:
                    run.ob("R-PRINTGATE", "with -n no state query is made", not queries, "state query despite no_check_state", site(b),
                           key="R-PRINTGATE|ipputil::do_print_job|query-with-n")
                run.ob("R-PRINTGATE", "one Print-Job per run", len(prints) == 1, "%d print sends" % len(prints), site(b), key="R-PRINTGATE|ipputil::do_print_job|count")
                # ---- wiring of the print request --------------------------------------------
                req = prints[0][2][1]
                pj = [x for x in subterms(req) if suffix(x, "::IppOperationBuilder::print_job")][0]
                uri, payload = display_norm(pj[2][0]), unwrap_ok(pj[2][1])
                ok_uri = suffix(uri, "::IppClient::uri") and same(uri[2][0], prints[0][2][0])
                run.ob("R-PRINTGATE", "print job targets the client's uri", ok_uri, tshow(uri)[:120], site(b), key="R-PRINTGATE|ipputil::do_print_job|uri")
                pl = payload
                if is_call(pl) and pl[1].endswith("::map_err"):
                    pl = pl[2][0]
                run.ob("R-PRINTGATE", "payload = new_payload(&cmd)", suffix(pl, "ipputil::new_payload") and pl[2][0] == CMD, tshow(payload)[:120], site(b),
                       key="R-PRINTGATE|ipputil::do_print_job|payload")
                for fld, setter in (("job_name", "job_title"), ("user_name", "user_name")):
                    present = None
                    for c in p.conds:
                        if c[0] == "match" and field_of(c[1], CMD, fld):
                            present = opt_polarity(c)
                    sets = [x for x in subterms(req) if suffix(x, "PrintJobBuilder::" + setter)]
                    if present:
                        ok = len(sets) == 1 and sets[0][2][1][0] == "proj" and field_of(sets[0][2][1][1], CMD, fld)
                    elif present is False:
                        ok = not sets
                    else:
                        ok = False
                    run.ob("R-PRINTGATE", "cmd.%s %s -> builder.%s" % (fld, "given" if present else "absent", setter), ok,
                           "setter calls: %s" % [tshow(x[2][1])[:60] for x in sets], site(b), key="R-PRINTGATE|ipputil::do_print_job|wiring|%s" % fld)
                other_set = [x[1].split("::")[-1] for x in subterms(req) if is_call(x) and "PrintJobBuilder::" in x[1] and
                             x[1].split("::")[-1] not in ("job_title", "user_name", "attribute", "attributes", "build")]
                run.ob("R-PRINTGATE", "no other builder setters", not other_set, other_set, site(b), key="R-PRINTGATE|ipputil::do_print_job|extra-setter")
                # options loop
                fors = [t for t, _ in calls if t[1] == "<for>" and field_of(t[2][0], CMD, "options")]
                okopt, why = False, "no loop over cmd.options"
                for f in fors:
                    for bp in f[3]["paths"]:
                        attrs = [t2 for t2, _ in all_calls(bp) if suffix(t2, "PrintJobBuilder::attribute")]
                        for a in attrs:
                            v = a[2][1]
                            if suffix(v, "::IppAttribute::new"):
                                k_t, val_t = v[2][0], v[2][1]
                                sp = [x for x in subterms(v) if suffix(x, "split_once")]
                                split_ok = bool(sp) and all(x[2][0][0] == "elem" and x[2][1] == ("lit", {"char": "="}) for x in sp)
                                k_ok = k_t[0] == "proj" and k_t[2] == "0" and k_t[1][0] == "proj" and suffix(k_t[1][1], "split_once")
                                pv = val_t
                                unwrapped = False
                                while is_call(pv) and pv[1].split("::")[-1] in ("unwrap", "expect", "unwrap_or_default"):
                                    pv = pv[2][0]
                                    unwrapped = True
                                v_ok = suffix(pv, "::parse") and pv[2][0][0] == "proj" and pv[2][0][2] == "1" and suffix(pv[2][0][1][1], "split_once")
                                node = pv[3] if is_call(pv) and len(pv) > 3 else {}
                                ty_ok = (node.get("gargs") or [None])[0] in ("ipp::value::IppValue", "ipp::prelude::IppValue") or "IppValue" in str(node.get("ty"))
                                flows = any(x[0] == "phi" and any(suffix(y, "PrintJobBuilder::attribute") for n2 in x[2] for y in subterms(n2)) for x in subterms(req))
                                okopt = split_ok and k_ok and v_ok and ty_ok and flows
                                why = "split at '='=%s key=name=%s value=parse::<IppValue>=%s/%s reaches the request=%s" % (split_ok, k_ok, v_ok, ty_ok, flows)
                run.ob("R-PRINTGATE", "every key=value option becomes IppAttribute::new(key, value.parse())", okopt, why, site(b),
                       key="R-PRINTGATE|ipputil::do_print_job|options")
            else:
                # paths that end without printing: error exits; the not-ready one is PrinterNotReady
                r = p.ret
                if ready is False and p.kind != "try":
                    ok = r[0] == "ctor" and r[1].endswith("::Err") and r[2] and r[2][0][0] == "ctor" and r[2][0][1].endswith("IppError::PrinterNotReady")
                    run.ob("R-PRINTGATE", "not ready -> Err(PrinterNotReady), nothing submitted", ok, tshow(r)[:100], site(b),
                           key="R-PRINTGATE|ipputil::do_print_job|not-ready-result")
                run.ob("R-PRINTGATE", "a path without Print-Job is an error exit", p.kind == "try" or (r[0] == "ctor" and r[1].endswith("::Err")),
                       "returns %s without printing" % tshow(r)[:80], site(b), key="R-PRINTGATE|ipputil::do_print_job|ok-without-print")
        run.floor("R-PRINTGATE", n_print, 2, "paths that send the Print-Job")
        # ---- the other commands: propagate + status gate ------------------------------------
        for fn in ("ipputil::do_status", "ipputil::do_purge_jobs", "ipputil::do_cancel_job", "ipputil::do_get_job", "ipputil::do_get_all_jobs"):
            status_gate(run, U, fn)
        # ---- new_payload ----------------------------------------------------------------------
        nb = U.body("ipputil::new_payload")
        if nb is None:
            run.anchor_lost("R-PRINTGATE", "ipputil::new_payload")
        else:
            seen = set()
            for p in paths_of(nb):
                if p.kind == "try":
                    continue
                r = simp(p.ret)
                v = r[2][0] if (r[0] == "ctor" and r[1].endswith("::Ok") and r[2]) else None
                src = None
                ok = suffix(v, "::IppPayload::new") and suffix(v[2][0], "::BufReader::<R>::new")
                if ok:
                    inner = unwrap_ok(v[2][0][2][0])
                    if suffix(inner, "::File::open"):
                        src = "file"
                        ok = inner[2][0][0] == "proj" and field_of(inner[2][0][1], CMD, "file")
                    elif suffix(inner, "::stdin"):
                        src = "stdin"
                    else:
                        ok = False
                seen.add(src)
                run.ob("R-PRINTGATE", "new_payload[%s] = IppPayload::new(BufReader::new(..))" % src, ok, tshow(r)[:160], site(nb), key="R-PRINTGATE|ipputil::new_payload|%s" % src)
            run.ob("R-PRINTGATE", "new_payload reads the given file or stdin", seen == {"file", "stdin"}, str(seen), site(nb), key="R-PRINTGATE|ipputil::new_payload|sources")
        # ---- main propagates every command -----------------------------------------------------
        mb = U.body("ipputil::main")
        if mb is None:
            run.anchor_lost("R-PRINTGATE", "ipputil::main")
        else:
            for p in paths_of(mb):
                if p.kind == "try":
                    continue
                cmds = [t for t in p.trace if is_call(t) and t[1].startswith("ipputil::do_")]
                ok = len(cmds) == 1 and any(c[0] == "if" and is_call(c[1], "<is_err>") and c[2] is False and same(c[1][2][0], cmds[0]) for c in p.conds)
                if not ok and len(cmds) == 1:
                    r_ = p.ret
                    while is_call(r_, "std::result::Result::<T, E>::map_err") and r_[2]:
                        r_ = r_[2][0]
                    ok = r_ is cmds[0] or same(r_, cmds[0])      # the command's own result is main's result (error converted, never dropped)
                run.ob("R-PRINTGATE", "main: command result propagated with ?", ok, "Ok path with commands %s" % [c[1] for c in cmds], site(mb),
                       key="R-PRINTGATE|ipputil::main|propagate")
                if cmds and cmds[0][1] == "ipputil::do_print_job":
                    arm = any(c[0] == "match" and "PrintJob" in c[2] for c in p.conds)
                    run.ob("R-PRINTGATE", "main: the print sub-command runs do_print_job", arm, "", site(mb), key="R-PRINTGATE|ipputil::main|print-arm")
        # ---- FromStr for IppValue ----------------------------------------------------------------
        fb = F.body("<ipp::value::IppValue as std::str::FromStr>::from_str")
        if fb is None:
            run.anchor_lost("R-PRINTGATE", "FromStr for IppValue")
        else:
            table = {}
            for p in paths_of(fb):
                r = simp(p.ret)
                v = r[2][0] if (r[0] == "ctor" and r[1].endswith("::Ok") and r[2]) else r
                key = None
                for c in p.conds:
                    if c[0] == "if" and c[1][0] == "bin" and c[1][1] == "Eq" and ("var", "s") in (c[1][2], c[1][3]):
                        lit = c[1][3] if c[1][2] == ("var", "s") else c[1][2]
                        if lit[0] == "lit" and lit[1] in ("true", "false"):
                            if c[2] is True:
                                key = lit[1]
                            elif key is None or key in ("true", "false"):
                                key = "other"
                    if c[0] == "match" and c[1] == ("var", "s"):
                        m = re.match(r"^'(true|false)'$", c[2])
                        key = m.group(1) if m else "other"
                    if key in (None, "other") and c[0] == "match" and parse_target(c[1]) == "bool" and c[1][2] and c[1][2][0] == ("var", "s"):
                        # `s.parse::<bool>()` is Ok(true) for "true", Ok(false) for "false" and Err for every other text (core::str: FromStr for bool)
                        if opt_polarity(c) is True:
                            key = "bool"
                            if v == ("ctor", "ipp::value::IppValue::Boolean", [("proj", c[1], "Ok.0")]):
                                table["true"] = ("ctor", "ipp::value::IppValue::Boolean", [("lit", True)])
                                table["false"] = ("ctor", "ipp::value::IppValue::Boolean", [("lit", False)])
                        else:
                            key = "other"
                        continue
                    if key == "other" and c[0] == "match" and parse_target(c[1]) is not None:
                        node = c[1][3] if len(c[1]) > 3 else {}
                        is_i32 = parse_target(c[1]) == "i32" or "i32" in str(node.get("ty"))
                        key = ("int" if is_i32 else "parse?") if ((c[3] is True) or (isinstance(c[3], int) and not isinstance(c[3], bool) and "Ok" in c[2] and not c[2].startswith("!"))) else "text"
                if key in table and table[key] != v:
                    run.ob("R-PRINTGATE", "FromStr: one result per class of text (%s)" % key, False, "%s and %s on different paths" % (tshow(table[key]), tshow(v)), site(fb),
                           key="R-PRINTGATE|FromStr|two-results|%s" % key)
                table[key] = v
            exp = {"true": ("ctor", "ipp::value::IppValue::Boolean", [("lit", True)]), "false": ("ctor", "ipp::value::IppValue::Boolean", [("lit", False)])}
            for k, want in exp.items():
                run.ob("R-PRINTGATE", "FromStr: '%s' -> Boolean(%s)" % (k, k), table.get(k) == want, tshow(table.get(k)), site(fb), key="R-PRINTGATE|FromStr|%s" % k)
            iv = table.get("int")
            run.ob("R-PRINTGATE", "FromStr: decimal i32 -> Integer(value)", iv is not None and iv[0] == "ctor" and iv[1] == "ipp::value::IppValue::Integer" and iv[2][0][0] == "proj",
                   tshow(iv), site(fb), key="R-PRINTGATE|FromStr|int")
            kv = table.get("text")
            run.ob("R-PRINTGATE", "FromStr: anything else -> Keyword(text)", kv is not None and kv[0] == "ctor" and kv[1] == "ipp::value::IppValue::Keyword" and
                   display_norm(kv[2][0]) in (("var", "other"), ("var", "s")), tshow(kv), site(fb), key="R-PRINTGATE|FromStr|text")
        # ---- clap derive output: no value splitting / defaulting on the print command ------------
        DENY = {"value_delimiter", "value_terminator", "num_args", "default_value", "default_values", "default_value_os", "default_missing_value", "default_missing_values",
                "default_value_if", "default_value_ifs", "require_equals", "trailing_var_arg", "last", "raw", "allow_hyphen_values", "allow_negative_numbers",
                "ignore_case", "env", "conflicts_with", "conflicts_with_all", "requires", "requires_if", "overrides_with", "overrides_with_all", "exclusive"}
        ab = U.body("<ipputil::IppPrintCmd as clap::Args>::augment_args")
        if ab is None:
            run.anchor_lost("R-PRINTGATE", "clap::Args for IppPrintCmd")
        else:
            n_args = 0
            for n in walk(ab["body"]):
                if n.get("k") == "mcall" and n["name"] == "arg" and "Command" in (n.get("callee") or ""):
                    blk = n["args"][0]
                    name = None
                    methods = {}
                    for x in walk(blk):
                        c = callee(x) or ""
                        if x.get("k") == "call" and c.endswith("::Arg::new"):
                            name = unwrap(x["args"][0]).get("v")
                        if x.get("k") == "mcall" and "::Arg::" in c:
                            methods[x["name"]] = x
                    n_args += 1
                    bad = sorted(set(methods) & DENY)
                    run.ob("R-PRINTGATE", "clap arg '%s': no value-splitting / defaulting / conflicting options" % name, not bad,
                           "Arg '%s' uses %s: option values would be split, defaulted or reinterpreted before do_print_job sees them" % (name, bad),
                           site(ab, methods[bad[0]]) if bad else site(ab), key="R-PRINTGATE|clap|%s|%s" % (name, ",".join(bad)))
                    if name == "no_check_state":
                        a = methods.get("action")
                        ok = a is not None and "SetTrue" in show(a["args"][0])
                        run.ob("R-PRINTGATE", "clap: -n sets no_check_state to true", ok, show(a)[:100] if a else "no action", site(ab), key="R-PRINTGATE|clap|no_check_state|action")
                        s = methods.get("short")
                        run.ob("R-PRINTGATE", "clap: the flag is -n", s is not None and unwrap(s["args"][0]).get("v") == {"char": "n"}, show(s)[:60] if s else "", site(ab),
                               key="R-PRINTGATE|clap|no_check_state|short")
                    if name == "options":
                        a = methods.get("action")
                        ok = a is not None and "Append" in show(a["args"][0])
                        run.ob("R-PRINTGATE", "clap: -o accumulates values", ok, show(a)[:100] if a else "no action", site(ab), key="R-PRINTGATE|clap|options|action")
            run.floor("R-PRINTGATE", n_args, 6, "clap args of the print command")
        # ---- the readiness helper (C17's rules), the blocking client (C11), the target URL (C14) ---------
        from ..engine import include
        from . import c11, c14, c17
        include(run, c17, {cfg: {"ipp": F}}, tier)
        include(run, c11, {cfg: {"ipp": F}}, tier, "blocking::IppClient::send", "R-CARGO")
        include(run, c14, {cfg: crates}, tier, "|ipputil::")
        from . import c09
        include(run, c09, {cfg: {"ipp": F}}, tier, "R-ORDERLIST", "R-GROUPS", "R-ENDTAG")
        from . import c10
        include(run, c10, {cfg: {"ipp": F}}, tier, "PrintJob", "attribute-new")
        run.cfg = cfg
