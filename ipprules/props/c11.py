"""C11 - HTTP clients put the exact request on the wire and return the exact response
(R-CONFIG-LIVE, R-HTTPSHAPE). Structural clauses only: what reqwest/ureq do at run time is not decided.

Per client `send` and configuration: each builder option is consumed on the way to the HTTP send (timeout
through `timeout`, every header through the per-entry header call un-swapped, the URL through the mapping
function, POST), the content type constant, the body derived from the request's own stream (payload
included), exactly one send per path, the status gate in front of the async parse, the parse result
returned with its error, and the Basic credentials' shape."""
import os

from ..facts import site
from ..symx import TooManyPaths, all_calls, closure_paths, cshow, paths_of, tshow
from ..terms import display_norm, flatten_fmt, is_call, mentions, opt_polarity, same, subterms

ASYNC = "ipp::client::non_blocking::AsyncIppClient::send"
BLOCK = "ipp::client::blocking::IppClient::send"
BUILDER = "ipp::client::IppClientBuilder::<T>::"


def cfg_field(t, name):
    while is_call(t) and t[1].split("::")[-1] in ("iter", "into_iter", "as_ref", "clone") and len(t[2]) == 1:
        t = t[2][0]          # `&self.0.headers`, `self.0.headers.iter()`
    return isinstance(t, tuple) and t[0] == "field" and t[2] == name and t[1][0] == "field" and t[1][2] == "0" and t[1][1] == ("var", "self")


def has_sub(t, pred):
    return any(pred(x) for x in subterms(t))


def check_send(run, F, fn, kind):
    b = F.body(fn)
    if b is None:
        run.anchor_lost("R-HTTPSHAPE", fn)
        return
    try:
        paths = paths_of(b)
    except TooManyPaths:
        run.ob("R-HTTPSHAPE", "%s analysable" % fn, False, "too many paths", site(b))
        return
    send_name = "reqwest::RequestBuilder::send" if kind == "async" else "ureq::Request::send"
    timeout_name = "reqwest::ClientBuilder::timeout" if kind == "async" else "ureq::AgentBuilder::timeout"
    header_name = "reqwest::RequestBuilder::header" if kind == "async" else "ureq::Request::set"
    post_name = "reqwest::Client::post" if kind == "async" else "ureq::Agent::post"
    parse_name = "ipp::parser::AsyncIppParser::<R>::parse" if kind == "async" else "ipp::parser::IppParser::<R>::parse"
    n_send_paths = 0
    n_parse_paths = 0
    short = fn.split("::")[-2]
    for p in paths:
        calls = list(all_calls(p))
        top = [t for t in p.trace if is_call(t)]
        sends = [t for t in top if t[1] == send_name]
        pc = " && ".join(cshow(c) for c in p.conds)[:220]
        if not sends:
            # paths that end before the request is sent must be error exits
            r = p.ret
            is_err = (p.kind == "try") or (r[0] == "ctor" and r[1].endswith("::Err"))
            run.ob("R-HTTPSHAPE", "%s: path without a send is an error exit" % short, is_err,
                   "path returns %s without sending [%s]" % (tshow(r)[:120], pc), site(b), key="R-HTTPSHAPE|%s|ok-without-send" % fn)
            continue
        n_send_paths += 1
        run.ob("R-HTTPSHAPE", "%s: exactly one HTTP send per path" % short, len(sends) == 1 and not any(t[1] == send_name for t, _ in calls if t not in top),
               "%d send calls on one path" % len(sends), site(b), key="R-HTTPSHAPE|%s|send-count" % fn)
        st = sends[0]
        recv = st[2][0]
        # (c) POST to the mapped URL
        posts = [x for x in subterms(recv) if is_call(x, post_name)]
        others = [x for x in subterms(recv) if is_call(x) and x[1] in ("reqwest::Client::get", "reqwest::Client::put", "ureq::Agent::get", "ureq::Agent::put",
                                                                         "reqwest::Client::request", "ureq::Agent::request")]
        okp = len(posts) == 1 and not others
        run.ob("R-HTTPSHAPE", "%s: request is a POST" % short, okp, "request built with %s" % [x[1] for x in posts + others], site(b),
               key="R-HTTPSHAPE|%s|method" % fn)
        if posts:
            url = display_norm(posts[0][2][1])
            run.ob("R-CONFIG-LIVE", "%s: URL = ipp_uri_to_string(self.0.uri)" % short,
                   is_call(url, "ipp::client::ipp_uri_to_string") and cfg_field(url[2][0], "uri"), "URL argument is %s" % tshow(url)[:160], site(b, posts[0][3]),
                   key="R-CONFIG-LIVE|%s|uri" % fn)
        # (a) timeout
        tcond = None
        for c in p.conds:
            if c[0] == "match" and cfg_field(c[1], "request_timeout"):
                tcond = opt_polarity(c)
        touts = [x for x in subterms(recv) if is_call(x, timeout_name)]
        if tcond:
            ok = len(touts) == 1 and touts[0][2][1][0] == "proj" and cfg_field(touts[0][2][1][1], "request_timeout")
            run.ob("R-CONFIG-LIVE", "%s: request_timeout reaches %s" % (short, timeout_name.split("::")[-1]), ok,
                   "configured timeout is consumed by %s" % ([x[1] for x in subterms(recv) if is_call(x) and "timeout" in x[1]]), site(b),
                   key="R-CONFIG-LIVE|%s|timeout" % fn)
        elif tcond is False:
            run.ob("R-CONFIG-LIVE", "%s: no overall timeout when none configured" % short, not touts, "timeout set without configuration", site(b))
        else:
            run.ob("R-CONFIG-LIVE", "%s: request_timeout examined" % short, False, "path sends without looking at request_timeout [%s]" % pc, site(b),
                   key="R-CONFIG-LIVE|%s|timeout-unread" % fn)
        # (b) headers: loop over all entries, un-swapped, result flows into the send
        hfor = [t for t in top if t[1] == "<for>" and cfg_field(t[2][0], "headers")]
        okh, why = False, "no loop over self.0.headers"
        for f in hfor:
            for bp in f[3]["paths"]:
                for t2, _c in all_calls(bp):
                    if t2[1] == header_name:
                        k, v = t2[2][1], t2[2][2]
                        kk = any(x[0] == "proj" and x[2] == "0" and x[1][0] == "elem" for x in subterms(k)) or any(x == ("var", "k") for x in subterms(k))
                        # tuple pattern (k, v) binds projections 0 and 1 of the element
                        k_ok = any(x[0] == "proj" and x[1][0] == "elem" and x[2] == "0" for x in subterms(k))
                        v_ok = any(x[0] == "proj" and x[1][0] == "elem" and x[2] == "1" for x in subterms(v))
                        flows = has_sub(recv, lambda x: x[0] == "phi" and any(is_call(y, header_name) for n in x[2] for y in subterms(n)))
                        okh = k_ok and v_ok and flows
                        why = "header call: key from entry key=%s, value from entry value=%s, result reaches the send=%s" % (k_ok, v_ok, flows)
        run.ob("R-CONFIG-LIVE", "%s: every configured header is set on the request" % short, okh, why, site(b), key="R-CONFIG-LIVE|%s|headers" % fn)
        for f in hfor:
            for bp in f[3]["paths"]:
                n_set = sum(1 for t2, _c in all_calls(bp) if t2[1] == header_name)
                run.ob("R-CONFIG-LIVE", "%s: the header loop sets the header on every iteration" % short, n_set == 1 and bp.kind in ("fall",),
                       "an iteration of the loop over the configured headers makes %d header call(s) and ends by `%s` under [%s]: some configured headers are skipped or altered" % (
                           n_set, bp.kind, " && ".join(cshow(c) for c in bp.conds)[-160:]), site(b), key="R-CONFIG-LIVE|%s|header-loop-unconditional" % fn)
        # (d) content type
        cts = [x for x in subterms(recv) if is_call(x, header_name) and x[2][1][0] == "lit" and str(x[2][1][1]).lower() == "content-type"]
        run.ob("R-HTTPSHAPE", "%s: Content-Type application/ipp" % short, len(cts) >= 1 and all(x[2][2] == ("lit", "application/ipp") for x in cts),
               "content-type header: %s" % [tshow(x[2][2]) for x in cts], site(b), key="R-HTTPSHAPE|%s|content-type" % fn)
        # (e) body
        if kind == "async":
            bodies = [x for x in subterms(recv) if is_call(x, "reqwest::RequestBuilder::body")]
            body_t = bodies[0][2][1] if bodies else None
        else:
            body_t = st[2][1] if len(st[2]) > 1 else None
        want = "ipp::request::IppRequestResponse::into_async_read" if kind == "async" else "ipp::request::IppRequestResponse::into_read"
        okb = False
        if body_t is not None:
            for x in subterms(body_t):
                if is_call(x, want):
                    src = display_norm(x[2][0])
                    okb = src == ("var", "request")
            m = mentions(body_t)
            if "ipp::request::IppRequestResponse::to_bytes" in m["callees"] or "ipp::request::IppRequestResponse::into_payload" in m["callees"]:
                okb = False
        run.ob("R-HTTPSHAPE", "%s: body is the request's own stream (header+attributes+payload)" % short, okb,
               "body is %s" % (tshow(body_t)[:200] if body_t else None), site(b), key="R-HTTPSHAPE|%s|body" % fn)
        # (h) the send result is propagated with `?`
        resp = ("ok?", ("await", st)) if kind == "async" else ("ok?", st)
        # (f)/(g) status gate and parse
        parses = [t for t in top if t[1] == parse_name]
        if kind == "async":
            gate = None
            for c in p.conds:
                if c[0] != "if":
                    continue
                ct, cpol = c[1], c[2]
                while isinstance(ct, tuple) and ct[0] == "un" and ct[1] == "Not":
                    ct, cpol = ct[2], not cpol          # `if !status.is_success() { return Err(..) }`
                if is_call(ct, "http::StatusCode::is_success") and is_call(ct[2][0], "reqwest::Response::status"):
                    gate = cpol
            if parses:
                n_parse_paths += 1
                run.ob("R-HTTPSHAPE", "%s: response parsed only after a success status" % short, gate is True,
                       "parse reached with status gate=%s [%s]" % (gate, pc), site(b), key="R-HTTPSHAPE|%s|status-gate" % fn)
            elif gate is False:
                r = p.ret
                ok = r[0] == "ctor" and r[1].endswith("::Err") and r[2] and r[2][0][0] == "ctor" and r[2][0][1] == "ipp::error::IppError::RequestError" and \
                    has_sub(r[2][0][2][0], lambda x: is_call(x, "reqwest::Response::status"))
                run.ob("R-HTTPSHAPE", "%s: HTTP error status -> Err(RequestError(code))" % short, ok, "non-success status returns %s" % tshow(r)[:160], site(b),
                       key="R-HTTPSHAPE|%s|status-error" % fn)
            elif p.kind != "try":
                run.ob("R-HTTPSHAPE", "%s: path after send examines the status" % short, False, "path returns %s without status check or parse" % tshow(p.ret)[:120], site(b),
                       key="R-HTTPSHAPE|%s|no-status-check" % fn)
        else:
            explicit_err = p.ret[0] == "ctor" and p.ret[1].endswith("::Err") and any(
                c[0] == "match" and (c[1] is st or is_call(c[1], send_name)) and "Err" in c[2] and c[3] is not False and not c[2].startswith("!") for c in p.conds) and \
                has_sub(p.ret, lambda x: x is st or is_call(x, send_name))
            if parses:
                n_parse_paths += 1
            elif explicit_err:
                pass        # `match send { Ok(r) => r, Err(e) => return Err(e.into()) }`: the spelled-out form of `?`
            elif p.kind != "try":
                run.ob("R-HTTPSHAPE", "%s: response is parsed" % short, False, "path returns %s without parsing the response" % tshow(p.ret)[:120], site(b),
                       key="R-HTTPSHAPE|%s|no-parse" % fn)
        if parses:
            pt = parses[0]
            # parser reads the response body
            srcname = "reqwest::Response::bytes_stream" if kind == "async" else "ureq::Response::into_reader"
            oksrc = has_sub(pt, lambda x: is_call(x, srcname) and has_sub(x[2][0], lambda y: y is st or (is_call(y, send_name))))
            run.ob("R-HTTPSHAPE", "%s: parser reads the response body stream" % short, oksrc, "parser source: %s" % tshow(pt[2][0])[:200], site(b, pt[3]),
                   key="R-HTTPSHAPE|%s|parse-source" % fn)
            # ... of the *successful* exchange: an Err(Status(_, response)) of the HTTP layer must never be parsed as a reply
            resp_terms = [x[2][0] for x in subterms(pt) if is_call(x, srcname) and x[2]]
            def ok_of_send(r):
                while isinstance(r, tuple) and r[0] in ("ref", "deref"):
                    r = r[1]
                if isinstance(r, tuple) and r[0] == "proj" and str(r[2]).startswith("Ok."):
                    r = ("ok?", r[1])          # the Ok arm of a match on the send result
                if not (isinstance(r, tuple) and r[0] == "ok?"):
                    return False
                inner = r[1]
                while isinstance(inner, tuple) and inner[0] == "await":
                    inner = inner[1]
                return inner is st or is_call(inner, send_name)
            run.ob("R-HTTPSHAPE", "%s: the parsed response is the Ok result of the send (`?`-propagated)" % short, bool(resp_terms) and all(ok_of_send(r) for r in resp_terms),
                   "the response whose body is parsed is %s: an HTTP-level error (status >= 400 in ureq, transport failure) would be turned into a successful IPP reply" % (
                       [tshow(r)[:120] for r in resp_terms]), site(b, pt[3]), key="R-HTTPSHAPE|%s|parse-ok-response" % fn)
            # ... the whole of it: only reviewed pass-through adaptors between the body stream and the parser
            chain_bad = []

            def down(t):
                if is_call(t, srcname):
                    return True
                if not is_call(t) or not t[2]:
                    return False
                nm = t[1].split("::")[-1]
                for a in t[2]:
                    if has_sub(a, lambda x: is_call(x, srcname)):
                        if nm not in STREAM_ADAPTORS:
                            chain_bad.append(t[1])
                        return down(a)
                return False
            if oksrc:
                down(pt[2][0])
                run.ob("R-HTTPSHAPE", "%s: nothing between the response body and the parser shortens or alters the stream" % short, not chain_bad,
                       "unreviewed adaptor(s) %s on the response stream (take / skip / chain would cut or alter the attributes or the document that follows them)" % chain_bad,
                       site(b, pt[3]), key="R-HTTPSHAPE|%s|parse-source-adaptor|%s" % (fn, ",".join(chain_bad)))
            # result returned with its error
            r = p.ret
            core = r
            if is_call(core, "std::result::Result::<T, E>::map_err"):
                core = core[2][0]
            if isinstance(core, tuple) and core[0] == "ctor" and core[1].endswith("::Ok") and isinstance(core[2], list) and len(core[2]) == 1 and \
                    isinstance(core[2][0], tuple) and core[2][0][0] == "ok?":
                core = core[2][0][1]        # `Ok(x?)` returns x's value and x's error (converted): the same result as `x.map_err(From::from)`
            if isinstance(core, tuple) and core[0] == "ctor" and core[1].endswith("::Err") and isinstance(core[2], list) and len(core[2]) == 1 and \
                    is_call(core[2][0], "<from-err>") and core[2][0][2]:
                core = core[2][0][2][0]     # .. and this is its error side, when the `?` sits in a helper that was inlined
            # .. or as an explicit match: `Ok(v) => Ok(v)` / `Err(e) => Err(ParseError(e))` (what From<IppParseError> for IppError does)
            if isinstance(core, tuple) and core[0] == "ctor" and isinstance(core[2], list) and len(core[2]) == 1:
                inner_ = core[2][0]
                if core[1].endswith("::Err") and isinstance(inner_, tuple) and inner_[0] == "ctor" and inner_[1] == "ipp::error::IppError::ParseError" and len(inner_[2]) == 1:
                    inner_ = inner_[2][0]
                if is_call(inner_, "std::convert::From::from", "std::convert::Into::into") and inner_[2]:
                    inner_ = inner_[2][0]
                if isinstance(inner_, tuple) and inner_[0] == "proj" and str(inner_[2]) == ("Ok.0" if core[1].endswith("::Ok") else "Err.0"):
                    core = inner_[1]
            while isinstance(core, tuple) and core[0] in ("await",):
                core = core[1]
            ok_ret = core is pt or (is_call(core, parse_name))
            bad = [c for c in mentions(r)["callees"] if c.split("::")[-1] in ("ok", "unwrap_or", "unwrap_or_default", "unwrap_or_else", "is_ok", "is_err")]
            run.ob("R-HTTPSHAPE", "%s: parse result is returned with its error" % short, ok_ret and not bad,
                   "function returns %s" % tshow(r)[:200], site(b), key="R-HTTPSHAPE|%s|parse-result" % fn)
    run.floor("R-HTTPSHAPE", n_send_paths, 1, "sending paths of " + fn)
    run.floor("R-HTTPSHAPE", n_parse_paths, 1, "parsing paths of " + fn)


def check_builder(run, F):
    # basic_auth
    b = F.body(BUILDER + "basic_auth")
    if b is None:
        run.anchor_lost("R-HTTPSHAPE", BUILDER + "basic_auth")
    else:
        # one setter written in terms of another (basic_auth through http_header) is judged with that setter inlined
        setters = {q: x for q, x in F.hir.items() if q.startswith(BUILDER) and x.get("kind") == "AssocFn"}
        for p in paths_of(b, inline=setters):
            ins = [t for t in p.trace if is_call(t) and t[1].endswith("BTreeMap::<K, V, A>::insert")]
            ok = False
            why = "no insert into headers"
            for t in ins:
                key = display_norm(t[2][1])
                val = flatten_fmt(t[2][2])
                why = "key=%s value=%s" % (tshow(key), tshow(t[2][2])[:200])
                if key[0] == "lit" and str(key[1]).lower() == "authorization" and len(val) == 2 and val[0] == ("s", "Basic ") and val[1][0] == "a":
                    enc = val[1][1]
                    if is_call(enc, "base64::Engine::encode") and enc[2][0] in (("def", "base64::prelude::STANDARD"), ("def", "base64::engine::general_purpose::STANDARD")):
                        cred = flatten_fmt(enc[2][1])
                        if len(cred) == 3 and cred[1] == ("s", ":"):
                            u, pw = display_norm(cred[0][1]), display_norm(cred[2][1])
                            ok = u == ("var", b["params"][1].get("name")) and pw == ("var", b["params"][2].get("name"))
                            why = "credentials = %s ':' %s" % (tshow(u), tshow(pw))
                        else:
                            why = "credential text is %s" % tshow(enc[2][1])[:160]
                    else:
                        why = "encoder is %s" % tshow(enc)[:160]
            run.ob("R-HTTPSHAPE", "basic_auth: authorization = 'Basic ' + base64-STANDARD(user ':' password)", ok, why, site(b),
                   key="R-HTTPSHAPE|%sbasic_auth|shape" % BUILDER)
            run.ob("R-HTTPSHAPE", "basic_auth returns the builder", p.ret == ("var", "self"), tshow(p.ret), site(b))
    # http_header
    b = F.body(BUILDER + "http_header")
    if b is None:
        run.anchor_lost("R-CONFIG-LIVE", BUILDER + "http_header")
    else:
        for p in paths_of(b):
            ins = [t for t in p.trace if is_call(t) and t[1].endswith("BTreeMap::<K, V, A>::insert")]
            ok = len(ins) == 1 and display_norm(ins[0][2][1]) == ("var", b["params"][1].get("name")) and display_norm(ins[0][2][2]) == ("var", b["params"][2].get("name")) \
                and p.ret == ("var", "self")
            run.ob("R-CONFIG-LIVE", "http_header stores (key, value) un-swapped", ok, [tshow(t)[:160] for t in ins], site(b),
                   key="R-CONFIG-LIVE|%shttp_header" % BUILDER)
    check_ca_cert_setter(run, F)
    b = F.body(BUILDER + "request_timeout")
    if b is None:
        run.anchor_lost("R-CONFIG-LIVE", BUILDER + "request_timeout")
    else:
        for p in paths_of(b):
            v = p.env.get((b["params"][0].get("id"), "request_timeout"))
            dur = ("var", b["params"][1].get("name"))
            ok = v is not None and p.ret == ("var", "self") and (
                (v[0] == "ctor" and v[1].endswith("::Some") and v[2][0] == dur) or
                (is_call(v, "std::convert::Into::into", "std::convert::From::from") and v[2][0] == dur))     # Option<T>: From<T> is Some
            run.ob("R-CONFIG-LIVE", "request_timeout stores Some(duration)", ok, tshow(v), site(b), key="R-CONFIG-LIVE|%srequest_timeout" % BUILDER)


IDENTITY_CONV = {"as_ref", "to_owned", "to_vec", "into", "from", "borrow", "clone", "deref", "as_slice", "into_vec", "to_bytes", "as_bytes"}


def check_ca_cert_setter(run, F):
    """ca_cert(data) appends exactly the caller's bytes (PEM or DER is decided later, on the whole data)."""
    b = F.body(BUILDER + "ca_cert")
    if b is None:
        run.anchor_lost("R-CONFIG-LIVE", BUILDER + "ca_cert")
        return
    for p in paths_of(b):
        pushes = [t for t in p.trace if is_call(t) and t[1].endswith("::push") and t[2] and t[2][0] == ("field", ("var", "self"), "ca_certs")]
        ok = len(pushes) == 1 and p.ret == ("var", "self")
        why = "%d push(es) into ca_certs" % len(pushes)
        if ok:
            v = pushes[0][2][1]
            names = [x[1].split("::")[-1] for x in subterms(v) if x[0] == "call"]
            leaves = [x for x in subterms(v) if x[0] == "var"]
            ok = all(n in IDENTITY_CONV for n in names) and leaves == [("var", b["params"][1].get("name"))]
            why = "stored value is %s" % tshow(v)[:160]
        run.ob("R-CONFIG-LIVE", "ca_cert stores the caller's certificate bytes unchanged", ok,
               "%s (a trimmed, filtered or re-encoded root no longer parses or no longer matches; accepted conversions: %s)" % (why, sorted(IDENTITY_CONV)), site(b),
               key="R-CONFIG-LIVE|%sca_cert|stored-unchanged" % BUILDER)


# pass-through adaptors accepted between the HTTP response body and the parser (each delivers every byte, in order)
STREAM_ADAPTORS = {"new", "map_err", "into_async_read", "compat", "with_capacity", "from", "into", "boxed", "err_into", "into_reader", "bytes_stream"}


def check_config_writers(run, F, rule="R-CONFIG-LIVE"):
    """who-may-write the client configuration: the target uri is set by the constructor only; the other fields by their setters."""
    from ..facts import show, unwrap, walk
    allowed = {"ignore_tls_errors": ("ignore_tls_errors",), "request_timeout": ("request_timeout",), "uri": (), "headers": (), "ca_certs": ()}
    B = "ipp::client::IppClientBuilder"
    for path, body in F.hir.items():
        if not path.startswith("ipp::client::") or "::tests::" in path:
            continue
        for n in walk(body["body"]):
            if n.get("k") in ("assign", "assignop"):
                l = unwrap(n["l"])
                if l.get("k") == "field" and l["name"] in allowed and (unwrap(l["e"]).get("ty") or "").replace("&mut ", "").startswith(B):
                    fn = path.split("::")[-1]
                    run.ob(rule, "%s writes builder field %s" % (path.split("::", 2)[-1], l["name"]), fn in allowed[l["name"]],
                           "assignment to the client's `%s` outside its setter: %s (the configured target / option would silently change)" % (l["name"], show(n)[:100]),
                           site(body, n), key="%s|writer|%s|%s" % (rule, l["name"], path))
            if n.get("k") == "struct" and (n.get("path") or "") == B and not path.endswith("::new") and "base" in n and \
                    unwrap(n["base"]).get("k") == "path" and unwrap(n["base"]).get("res", {}).get("r") == "local":
                # `Self { field: v, ..self }` is `self.field = v; self`: each listed field is written, the others are carried over
                for f in n["fields"]:
                    if f["name"] in allowed:
                        fn = path.split("::")[-1]
                        run.ob(rule, "%s writes builder field %s" % (path.split("::", 2)[-1], f["name"]), fn in allowed[f["name"]],
                               "record update of the client's `%s` outside its setter: %s (the configured target / option would silently change)" % (f["name"], show(n)[:100]),
                               site(body, n), key="%s|writer|%s|%s" % (rule, f["name"], path))
                continue
            if n.get("k") == "struct" and (n.get("path") or "") == B and not path.endswith("::new"):
                run.ob(rule, "%s rebuilds the client configuration" % path.split("::", 2)[-1], False, show(n)[:100], site(body, n), key="%s|rebuild|%s" % (rule, path))
    nb = F.body(B + "::<T>::new")
    if nb is not None:
        r = paths_of(nb)[0].ret
        ok = r[0] == "ctor" and isinstance(r[2], dict) and r[2].get("uri") == ("var", "uri")
        run.ob(rule, "IppClientBuilder::new stores the target uri as given", ok, tshow(r)[:120], site(nb), key="%s|new|uri" % rule)
        if r[0] == "ctor" and isinstance(r[2], dict):
            f = r[2]
            empty = lambda t: is_call(t) and t[1].split("::")[-1] in ("new", "default") and not t[2]
            neutral = {"ignore_tls_errors": f.get("ignore_tls_errors") == ("lit", False),
                       "request_timeout": isinstance(f.get("request_timeout"), tuple) and f["request_timeout"][0] == "ctor" and f["request_timeout"][1].endswith("::None"),
                       "headers": empty(f.get("headers")), "ca_certs": empty(f.get("ca_certs"))}
            for fld, good in neutral.items():
                run.ob(rule, "IppClientBuilder::new starts with a neutral `%s`" % fld, good,
                       "a new builder already carries %s = %s: every request of every client is sent with it although the caller configured nothing" % (fld, tshow(f.get(fld))[:80]),
                       site(nb), key="%s|new|%s" % (rule, fld))
    for acc in ("ipp::client::non_blocking::AsyncIppClient::uri", "ipp::client::blocking::IppClient::uri"):
        ab = F.body(acc)
        if ab is not None:
            r = paths_of(ab)[0].ret
            run.ob(rule, "%s returns the configured target" % acc.split("::", 2)[-1], cfg_field(r, "uri"), tshow(r)[:80], site(ab), key="%s|accessor|%s" % (rule, acc))


def check(run, views, tier):
    run.explanation = (
        "R-CONFIG-LIVE / R-HTTPSHAPE over the symbolic paths of both clients' send() under each compiled configuration: "
        "configuration-field liveness into the builder chain on which send/post is invoked; POST; URL through the mapping "
        "function; content type; body = into_read/into_async_read of the request argument; one send per path; async status "
        "gate and error value; parser over the response stream; parse result returned unchanged; basic-auth and header "
        "setters. This decides only the shape of the calls this crate makes.")
    run.trusted = ["reqwest / ureq / hyper: what is put on the wire, framing, fragmentation, timeouts firing, connection handling",
                   "ureq 2.x turns HTTP status >= 400 into Err(Status) from send()", "base64 STANDARD engine"]
    run.not_decided = ["exactly one POST on the wire, header casing, chunked vs content-length (HTTP stack)",
                       "response framing / fragmentation / cut connections / timeouts actually firing (run-time behaviour with a live peer)",
                       "concurrent sends through one client (reqwest/ureq internals)"]
    from ..cargorules import r_cargo
    r_cargo(run)
    for cfg, crates in views.items():
        run.cfg = cfg
        F = crates["ipp"]
        check_config_writers(run, F)
        done = 0
        if "async-client" in F.features:
            check_send(run, F, ASYNC, "async")
            done += 1
        if "client" in F.features:
            check_send(run, F, BLOCK, "blocking")
            done += 1
        if done:
            check_builder(run, F)
            from ..engine import include
            from . import c08, c14
            # "a body that decodes to exactly the request and its payload bytes": the request stream and the payload bridge (C08)
            include(run, c08, {cfg: {"ipp": F}}, tier)
            from .c12 import check_statics
            include(run, c14, {cfg: {"ipp": F}}, tier, "!default_port")
            check_statics(run, F)
            # "a connection cut before the end of the attributes yields an error": the reader/parser error discipline of C07
            from .. import readerrules as rr
            rr.r_propagate(run, F)
            rr.r_stop_onlyexit(run, F)
            rr.r_errwrap(run, F)
        else:
            run.note("no client compiled under cfg %s" % cfg)
