"""C09 - mandatory operation attributes are emitted in RFC 8011 order (R-ORDERLIST, R-ENDTAG/R-GROUPS).

The emission schedule of IppAttributes::to_bytes is extracted as an event tree (puts and loops, in
order). Required shape: operation delimiter first; then a loop over a compile-time constant name list L
emitting `get(L[i])` from the first operation group; then the unordered rest filtered by membership in
the same L; then the other groups; then one end tag. L, evaluated by the compiler, is compared with
RFC 8011 4.1.4-4.1.5 (tables/order.json)."""
import os

from ..emit import events_of_trace, flat_puts
from ..engine import VERIF, load_json
from ..facts import show, site, unwrap, walk
from ..symx import closure_paths, cshow, paths_of, tshow
from ..terms import is_call, is_map_call, same, subterms

FN = "ipp::attribute::IppAttributes::to_bytes"
OP = "ipp::model::DelimiterTag::OperationAttributes"
END = "ipp::model::DelimiterTag::EndOfAttributes"


def is_tag_const(t, variant):
    """(DelimiterTag::X as u8)"""
    return isinstance(t, tuple) and t[0] == "cast" and t[2][0] == "ctor" and t[2][1] == variant


def first_op_group(t):
    """t denotes 'the first operation-attributes group of self'."""
    if isinstance(t, tuple) and t[0] == "proj" and t[2].endswith("Some.0"):
        n = t[1]
        if is_call(n, "std::iter::Iterator::next") and is_call(n[2][0], "ipp::attribute::IppAttributes::groups_of"):
            a = n[2][0][2]
            return len(a) == 2 and a[0] == ("var", "self") and a[1][0] == "ctor" and a[1][1] == OP
        # groups.iter().find(|g| g.tag() == OperationAttributes): also the first such group in message order
        if is_call(n, "std::iter::Iterator::find") and is_call(n[2][0], "core::slice::<impl [T]>::iter") and n[2][1][0] == "closure":
            src = n[2][0][2][0]
            src_ok = src == ("field", ("var", "self"), "groups") or (is_call(src, "ipp::attribute::IppAttributes::groups") and src[2][0] == ("var", "self"))
            txt = show(n[2][1][1]["body"])
            return src_ok and " Eq " in txt and "OperationAttributes" in txt and "tag" in txt
    return False


def attrs_of_first_group(t):
    return is_call(t, "ipp::attribute::IppAttributeGroup::attributes") and first_op_group(t[2][0])


def const_of(t):
    """iteration source that is a named constant (through iter()/into_iter())."""
    while is_call(t) and t[1] in ("core::slice::<impl [T]>::iter", "std::iter::IntoIterator::into_iter",
                                   "core::array::<impl [T; N]>::iter", "core::array::<impl std::iter::IntoIterator for &'a [T; N]>::into_iter"):
        t = t[2][0]
    if isinstance(t, tuple) and t[0] == "def":
        return t[1]
    return None


def truth(c):
    """Normalise an if-condition to (term, polarity)."""
    t, pol = c[1], c[2]
    while isinstance(t, tuple) and t[0] == "un" and t[1] == "Not":
        t, pol = t[2], not pol
    return t, pol


def membership_const(F, fn_path, run):
    """If local fn `fn_path(x)` tests membership of x in a named constant, return that constant's path."""
    b = F.body(fn_path)
    if b is None:
        return None
    ps = paths_of(b)
    if len(ps) == 2:
        # for x in &CONST { if *x == arg { return true; } } false
        pname = b["params"][0].get("name")
        yes = [p for p in ps if p.ret == ("lit", True)]
        no = [p for p in ps if p.ret == ("lit", False)]
        # matches!(x, A | B | ..) over named string constants: the member set is what the compiler evaluates those constants to
        if (len(yes) == 1 and len(no) == 1 and len(yes[0].conds) == 1 and len(no[0].conds) == 1 and not yes[0].trace and not no[0].trace
                and yes[0].conds[0][0] == "match" and no[0].conds[0][0] == "match"
                and yes[0].conds[0][1] == ("var", pname) and no[0].conds[0][1] == ("var", pname)
                and isinstance(no[0].conds[0][4], dict) and no[0].conds[0][4].get("k") == "wild"):
            pat = yes[0].conds[0][4]
            alts = pat.get("pats", []) if isinstance(pat, dict) and pat.get("k") == "por" else [pat]
            vals = []
            for a in alts:
                e = a.get("e", {}) if isinstance(a, dict) and a.get("k") == "pexpr" else {}
                if e.get("k") == "lit" and isinstance(e.get("v"), str):
                    vals.append(e["v"])
                    continue
                v = F.const_value(e.get("res", {}).get("path")) if e.get("k") == "path" else None
                if not isinstance(v, str):
                    return None
                vals.append(v)
            return ("set", frozenset(vals)) if vals else None
        if len(yes) == 1 and len(no) == 1:
            loops = [t for t in no[0].trace if is_call(t, "<for>")]
            inl = [c for c in yes[0].conds if c[0] == "if" and is_call(c[1], "<in-loop>") and c[2] is True]
            eq = [c for c in yes[0].conds if c[0] == "if" and c[2] is True and isinstance(c[1], tuple) and c[1][0] == "bin" and c[1][1] == "Eq" and
                  pname in (tshow(c[1][2]), tshow(c[1][3])) and any(x[0] == "elem" for x in subterms(c[1]))]
            if len(loops) == 1 and inl and eq and const_of(loops[0][2][0]) and const_of(loops[0][2][0]) == const_of(inl[0][1][2][0]) and not no[0].conds:
                return const_of(loops[0][2][0])
        return None
    if len(ps) != 1:
        return None
    r = ps[0].ret
    if is_call(r, "std::iter::Iterator::any"):
        c = const_of(r[2][0])
        clo = r[2][1]
        if c and clo[0] == "closure":
            cp = closure_paths(b, clo)
            if len(cp) == 1 and cp[0].ret[0] == "bin" and cp[0].ret[1] == "Eq":
                sides = {tshow(cp[0].ret[2]), tshow(cp[0].ret[3])}
                pname = b["params"][0].get("name")
                if pname in sides:
                    return c
    if is_call(r, "core::slice::<impl [T]>::contains"):
        return const_of(r[2][0])
    return None


def check(run, views, tier, with_ops=True):
    if with_ops:
        from ..engine import include
        from . import c10 as _c10
        include(run, _c10, views, tier, "IppRequestResponse::new")
        # a request is serialised through IppAttributes::to_bytes itself (not through a variant of it with another leading list): C08's clause
        from . import c08 as _c08
        include(run, _c08, views, tier, "R-CHAIN|to_bytes")
        # "third / fourth attribute on the wire" presupposes that each attribute occupies exactly the octets its length fields announce:
        # the encoder layout and length-prefix clauses of C03 (a clamped or wrong length field makes the tail of one value read as the next attribute)
        from . import c03 as _c03
        include(run, _c03, views, tier, "R-LENPREFIX", "R-LAYOUT", "R-FRAME", "R-BE")
    run.explanation = (
        "R-ORDERLIST / R-ENDTAG: the emission schedule of IppAttributes::to_bytes is extracted as an ordered event tree "
        "from the resolved HIR. The operation delimiter must be the first emission on every path; the ordered part is a "
        "loop over a named constant L whose elements are looked up in the first operation group; the unordered part "
        "(hash-map iteration) must be filtered by non-membership in the same L and come after it; other groups follow, "
        "each behind its own tag, excluding the operation group; exactly one end tag is emitted last. L as evaluated by "
        "the compiler must be [charset, natural-language, target uri(s)..., job-id] per RFC 8011 4.1.4-4.1.5. Because "
        "the ordered part is driven by a constant and the rest is filtered by the same constant, the result does not "
        "depend on insertion or hash order.")
    run.trusted = ["HashMap::get / values semantics", "bytes::BufMut appends in call order"]
    run.not_decided = []
    T = load_json(os.path.join(VERIF, "tables", "order.json"))
    for cfg, crates in views.items():
        run.cfg = cfg
        F = crates["ipp"]
        b = F.body(FN)
        if b is None:
            run.anchor_lost("R-ORDERLIST", FN)
            continue
        paths = paths_of(b)
        run.floor("R-ORDERLIST", len(paths), 2, "paths through " + FN)
        L_path = None
        for p in paths:
            evs = events_of_trace(p.trace)
            pc = " && ".join(cshow(c) for c in p.conds)[:160]
            top_puts = [e for e in evs if e.tag == "put"]
            # (1) first emission: operation delimiter
            first = evs[0] if evs else None
            run.ob("R-GROUPS", "first emission is the operation-attributes delimiter [%s]" % pc,
                   first is not None and first.tag == "put" and first.kind == "u8" and is_tag_const(first.value, OP),
                   "first emission is %r" % (first,), site(b), key="R-GROUPS|%s|first-emission" % FN)
            # (7) last emission: end tag, once
            last = evs[-1] if evs else None
            run.ob("R-ENDTAG", "last emission is the end-of-attributes tag [%s]" % pc,
                   last is not None and last.tag == "put" and is_tag_const(last.value, END), "last emission is %r" % (last,), site(b),
                   key="R-ENDTAG|%s|last-emission" % FN)
            ends = [e for e in flat_puts(evs) if e.value is not None and (is_tag_const(e.value, END) or e.value == ("lit", 3))]
            run.ob("R-ENDTAG", "exactly one end tag [%s]" % pc, len(ends) == 1, "%d end-tag emissions" % len(ends), site(b),
                   key="R-ENDTAG|%s|count" % FN)
            loops = [e for e in evs if e.tag == "for"]
            ordered = [e for e in loops if const_of(e.iter)]
            unordered_same = [e for e in loops if any(attrs_of_first_group(s) for s in subterms(e.iter))]
            others = [e for e in loops if e not in ordered and e not in unordered_same]
            has_group = any(c[0] == "match" and c[3] is True for c in p.conds)
            if not has_group:
                run.ob("R-ORDERLIST", "no operation group: nothing of it is emitted", not ordered and not unordered_same,
                       "emits group attributes without a group", site(b))
            else:
                run.ob("R-ORDERLIST", "one ordered-first loop over a named constant", len(ordered) == 1,
                       "found %d loops over a constant list" % len(ordered), site(b), key="R-ORDERLIST|%s|ordered-loop" % FN)
                if len(ordered) == 1:
                    o = ordered[0]
                    L_path = const_of(o.iter)
                    # body: emits get(elem) of the first op group, nothing else
                    okb = True
                    why = ""
                    n_emit = 0
                    for conds, bevs, _k in o.bodies:
                        for e in flat_puts(bevs):
                            n_emit += 1
                            v = e.value
                            good = (e.kind == "buf" and is_call(v, "ipp::attribute::IppAttribute::to_bytes") and v[2][0][0] == "proj"
                                    and is_call(v[2][0][1]) and is_map_call(v[2][0][1][1], "get")
                                    and attrs_of_first_group(v[2][0][1][2][0]) and v[2][0][1][2][1][0] == "elem")
                            if not good:
                                okb, why = False, "ordered loop emits %s" % tshow(v)[:200]
                    run.ob("R-ORDERLIST", "ordered loop emits group.get(L[i]).to_bytes()", okb and n_emit >= 1, why or "no emission", site(b),
                           key="R-ORDERLIST|%s|ordered-body" % FN)
                    # unordered part of the same group: after the ordered loop, filtered by the same constant
                    for u in unordered_same:
                        run.ob("R-ORDERLIST", "ordered part precedes the unordered part", evs.index(o) < evs.index(u),
                               "hash-map iteration of the operation group is emitted before the ordered list", site(b),
                               key="R-ORDERLIST|%s|order-of-parts" % FN)
                        for conds, bevs, _k in u.bodies:
                            puts = list(flat_puts(bevs))
                            if not puts:
                                continue
                            guard_const = None
                            for c in conds:
                                if c[0] != "if":
                                    continue
                                t, pol = truth(c)
                                if is_call(t) and not pol:
                                    mc = membership_const(F, t[1], run)
                                    if mc is None and is_call(t, "core::slice::<impl [T]>::contains") and len(t[2]) == 2:
                                        mc = const_of(t[2][0])          # the membership test written in place: L.contains(&name)
                                    if mc is None and is_call(t, "std::iter::Iterator::any") and len(t[2]) == 2 and const_of(t[2][0]) and t[2][1][0] == "closure":
                                        cp = closure_paths(b, t[2][1])
                                        if len(cp) == 1 and cp[0].ret[0] == "bin" and cp[0].ret[1] == "Eq":
                                            mc = const_of(t[2][0])      # L.iter().any(|x| x == name)
                                    if mc:
                                        guard_const = mc
                            run.ob("R-ORDERLIST", "unordered emission is filtered by non-membership in the ordered list",
                                   guard_const == L_path or (isinstance(guard_const, tuple) and guard_const[0] == "set"
                                                             and isinstance(F.const_value(L_path), list)
                                                             and guard_const[1] == frozenset(F.const_value(L_path))),
                                   "emission %r in the hash-map loop is guarded by membership in %s, the ordered list is %s (an attribute "
                                   "would be emitted twice or in hash order)" % (puts[0], guard_const, L_path), site(b),
                                   key="R-ORDERLIST|%s|filter" % FN)
                    run.ob("R-ORDERLIST", "rest of the operation group is emitted", len(unordered_same) >= 1,
                           "no loop over the remaining operation attributes", site(b))
            # other groups: each behind its tag; the operation group excluded
            for g in others:
                # the loop runs over the group list (a `.filter(..)` on it has been turned into a condition of the body by the path builder):
                # a body path emits a group exactly when the path assumes `tag != OperationAttributes`, and nothing else is assumed
                def op_test(c):
                    """-> True if the condition says 'this group is not the operation group', False if it says it is, None otherwise."""
                    if c[0] != "if":
                        return None
                    t, pol = c[1], c[2]
                    while isinstance(t, tuple) and t[0] == "un" and t[1] == "Not":
                        t, pol = t[2], not pol
                    if not (isinstance(t, tuple) and t[0] == "bin" and t[1] in ("Ne", "Eq")):
                        return None
                    sides = [t[2], t[3]]
                    if ("ctor", OP, []) in sides and any(is_call(x, "ipp::attribute::IppAttributeGroup::tag") or (x[0] == "field" and x[2] == "tag") for x in sides):
                        return (t[1] == "Ne") == pol
                    return None
                excl, why_x = True, ""
                emitting = 0
                for conds, bevs, _k in g.bodies:
                    tests = [op_test(c) for c in conds]
                    known = [x for x in tests if x is not None]
                    extra = [c for c, x in zip(conds, tests) if x is None and c[0] in ("if", "match", "guard")]
                    emits = bool(list(flat_puts(bevs)))
                    if emits:
                        emitting += 1
                        if known != [True] or extra:
                            # loop-internal conditions of the attribute loop are inside nested events, not here: anything at group level is a filter
                            excl, why_x = False, "a group is emitted under [%s]" % " && ".join(cshow(c) for c in conds)[:160]
                    elif known != [False] or extra:
                        excl, why_x = False, "a group is skipped under [%s]" % " && ".join(cshow(c) for c in conds)[:160]
                run.ob("R-GROUPS", "other-groups loop emits every group except the operation group", excl and emitting >= 1,
                       "loop over %s: the filter is not exactly `tag != OperationAttributes` (the operation group would be emitted twice, or other groups dropped): %s" % (
                           tshow(g.iter)[:120], why_x), site(b), key="R-GROUPS|%s|exclude-op" % FN)
                # ... in message order: the loop runs directly over the group list, nothing regroups or reorders it
                outer = [x[1] for x in subterms(g.iter) if x[0] == "call"]
                extra = sorted(c for c in outer if c.split("::")[-1] not in ("iter", "into_iter", "groups", "deref", "as_slice", "as_ref", "by_ref"))
                run.ob("R-GROUPS", "other groups are emitted in message order", not extra,
                       "the group loop runs over %s: %s regroup or reorder the message's groups (decoding the output no longer gives the message that was encoded)" % (
                           tshow(g.iter)[:140], [c.split("::")[-1] for c in extra]), site(b), key="R-GROUPS|%s|message-order|%s" % (FN, ",".join(c.split("::")[-1] for c in extra)))
                for conds, bevs, _k in g.bodies:
                    if not list(flat_puts(bevs)):
                        continue
                    # inside a non-operation group every attribute is written, unconditionally, once: the nested attribute loop has no filter
                    for inner in [e for e in bevs if e.tag == "for"]:
                        for conds2, bevs2, k2 in inner.bodies:
                            flt = [c for c in conds2 if c[0] in ("if", "match", "guard")]
                            n_put = len([e for e in flat_puts(bevs2)])
                            run.ob("R-GROUPS", "a non-operation group writes every one of its attributes", not flt and n_put == 1 and k2 == "fall",
                                   "the attribute loop of the other groups emits %d value(s) under [%s]: attributes of job / printer / unsupported groups are filtered or repeated" % (
                                       n_put, " && ".join(cshow(c) for c in flt)[:160]), site(b), key="R-GROUPS|%s|other-group-attributes" % FN)
                    fe = bevs[0] if bevs else None
                    ok = fe is not None and fe.tag == "put" and fe.kind == "u8" and fe.value[0] == "cast" and \
                        is_call(fe.value[2], "ipp::attribute::IppAttributeGroup::tag")
                    run.ob("R-GROUPS", "each other group starts with its own delimiter tag", ok, "group body starts with %r" % (fe,), site(b),
                           key="R-GROUPS|%s|group-tag" % FN)
            if has_group:
                for g in others:
                    if ordered and unordered_same:
                        run.ob("R-GROUPS", "operation group precedes every other group",
                               evs.index(g) > max(evs.index(x) for x in ordered + unordered_same),
                               "another group is emitted before the operation group's attributes", site(b),
                               key="R-GROUPS|%s|op-first" % FN)
        # (5) the list itself
        if L_path is None:
            run.ob("R-ORDERLIST", "ordered-first constant found", False, "no constant list drives the emission", site(b),
                   key="R-ORDERLIST|%s|no-constant" % FN)
            continue
        L = F.const_value(L_path)
        c = F.consts.get(L_path, {})
        st = "%s:%s (%s)" % (c.get("file"), c.get("line"), L_path)
        if not isinstance(L, list):
            run.ob("R-ORDERLIST", "ordered-first constant evaluable", False, "cannot evaluate %s" % L_path, st)
            continue
        run.ob("R-ORDERLIST", "L[0..2] = charset, natural-language", L[:2] == T["first"], "list starts with %s" % L[:2], st,
               key="R-ORDERLIST|%s|first-two" % L_path)
        for tgt in T["targets"]:
            run.ob("R-ORDERLIST", "%s in the ordered list (operation target, third)" % tgt, tgt in L,
                   "list is %s: %s would be emitted in hash order instead of third" % (L, tgt), st, key="R-ORDERLIST|%s|%s" % (L_path, tgt))
        run.ob("R-ORDERLIST", "job-id in the ordered list (RFC 8011 4.1.5: fourth after printer-uri)", T["then"] in L,
               "list is %s: job-id would be emitted in hash order after the listed names" % L, st,
               key="R-ORDERLIST|%s|job-id-missing" % L_path)
        if T["then"] in L:
            before = L[2:L.index(T["then"])]
            run.ob("R-ORDERLIST", "only target uris between natural-language and job-id",
                   all(x in T["targets"] for x in before) and "printer-uri" in before,
                   "names between position 2 and job-id: %s" % before, st, key="R-ORDERLIST|%s|between" % L_path)
        if "printer-uri" in L:
            run.ob("R-ORDERLIST", "target uri is third", L.index("printer-uri") == 2 or (L[2:3] == ["job-uri"] and L.index("printer-uri") == 3) or L[2] in T["targets"],
                   "third name is %s" % L[2:3], st, key="R-ORDERLIST|%s|third" % L_path)
        run.ob("R-ORDERLIST", "no duplicates in the ordered list", len(set(L)) == len(L), "list is %s" % L, st)
        # the builders put the target attributes into the operation group in the first place (R-OPWIRE of C10)
        if with_ops:
            from . import c10
            from ..engine import load_json as _lj
            TO = _lj(os.path.join(VERIF, "tables", "ops.json"))
            inline = {p_: b_ for p_, b_ in F.hir.items() if p_.startswith("ipp::operation::") and b_["kind"] == "Fn" and p_.count("::") == 2}
            for ty, spec in TO["operations"].items():
                c10.check_operation(run, F, ty, spec, TO, inline)
