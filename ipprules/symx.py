"""Path-sensitive term builder over resolved HIR.

For a function body it enumerates the syntactic paths (if / match / `?` / early return forks) and for
each path builds: the list of branch conditions taken, the ordered trace of calls evaluated, and the
returned value as a term over the parameters with library calls left uninterpreted. Nothing is executed
and nothing is solved: terms are compared structurally by the rules. This is the "backward term builder"
of DESIGN.md 1.2 in forward form; it makes the wiring rules independent of how a function spells its
control flow (match vs if-let vs let-else vs early return).

Terms (tuples):
  ('lit', v) ('var', name) ('def', path) ('unit',)
  ('call', callee_path, [args], node)     method calls: receiver is args[0]; node = HIR node (for sites)
  ('ctor', variant_path, [args] | {field: term})
  ('tuple', [..]) ('array', [..]) ('field', base, name) ('index', base, i)
  ('bin', op, a, b) ('un', op, a) ('cast', ty, a)
  ('fmt', pieces) pieces = [('s', text) | ('a', term, spec)]
  ('closure', node) ('proj', base, what) ('elem', iter_term) ('ok?', t) ('err?', t) ('await', t)
  ('opaque', kind)
"""
import re

from .facts import show, unwrap

MAX_PATHS = 4096
INT_TYPES = {"u8", "u16", "u32", "u64", "u128", "usize", "i8", "i16", "i32", "i64", "i128", "isize"}


class TooManyPaths(Exception):
    pass


class St:
    __slots__ = ("env", "conds", "trace")

    def __init__(self, env=None, conds=None, trace=None):
        self.env = env or {}
        self.conds = conds or []
        self.trace = trace or []

    def fork(self):
        return St(dict(self.env), list(self.conds), list(self.trace))

    def log(self, t):
        """Append a call term to the trace, stamped with the number of conditions in force."""
        if len(t) == 4:
            t = t + (len(self.conds),)
        self.trace.append(t)
        return t

    def cond(self, c):
        s = self.fork()
        s.conds.append(c)
        return s


class Path:
    def __init__(self, st, kind, val):
        self.env, self.conds, self.trace, self.kind, self.ret = st.env, st.conds, st.trace, kind, val

    def calls(self, pred=None):
        return [t for t in self.trace if t[0] == "call" and (pred is None or pred(t[1]))]


def strip(t):
    """Look through wrappers that do not change what a value denotes for wiring purposes."""
    while isinstance(t, tuple) and t[0] in ("ok?", "await"):
        t = t[1]
    return t


def tshow(t, depth=0):
    if depth > 10:
        return "…"
    if not isinstance(t, tuple):
        return repr(t)
    k = t[0]
    s = lambda x: tshow(x, depth + 1)
    if k == "lit":
        return repr(t[1])
    if k == "var":
        return t[1]
    if k == "def":
        return t[1]
    if k == "unit":
        return "()"
    if k == "call":
        name = t[1] or "?"
        return "%s(%s)" % (name, ", ".join(s(a) for a in t[2]))
    if k == "ctor":
        if isinstance(t[2], dict):
            return "%s{%s}" % (t[1], ", ".join("%s: %s" % (n, s(v)) for n, v in t[2].items()))
        return "%s(%s)" % (t[1], ", ".join(s(a) for a in t[2])) if t[2] else t[1]
    if k in ("tuple", "array"):
        return "(%s)" % ", ".join(s(a) for a in t[1])
    if k == "field":
        return "%s.%s" % (s(t[1]), t[2])
    if k == "index":
        return "%s[%s]" % (s(t[1]), s(t[2]))
    if k == "bin":
        return "(%s %s %s)" % (s(t[2]), t[1], s(t[3]))
    if k == "un":
        return "%s(%s)" % (t[1], s(t[2]))
    if k == "cast":
        return "(%s as %s)" % (s(t[2]), t[1])
    if k == "fmt":
        return "fmt[" + "".join(p[1] if p[0] == "s" else "{" + s(p[1]) + (":" + p[2] if p[2] else "") + "}" for p in t[1]) + "]"
    if k == "closure":
        return "|..| " + show(t[1].get("body"))[:80]
    if k == "proj":
        return "%s#%s" % (s(t[1]), t[2])
    if k in ("elem", "ok?", "err?", "await"):
        return "%s(%s)" % (k, s(t[1]))
    if k == "phi":
        return "phi(%s | %s)" % (s(t[1]), " | ".join(s(x) for x in t[2]))
    return "<%s>" % k


def cshow(c):
    if c[0] == "if":
        return ("" if c[2] else "!") + tshow(c[1])
    if c[0] == "match":
        return "%s matches %s" % (tshow(c[1]), c[2])
    if c[0] == "guard":
        return ("" if c[2] else "!") + "guard " + tshow(c[1])
    return str(c)


FMT_MACROS = {"format", "write", "writeln", "print", "println", "eprint", "eprintln", "format_args", "panic", "trace",
              "debug", "info", "warn", "error", "log"}


def parse_format_snippet(snip):
    """Return (macro_name, template string, explicit arg source strings) from a macro call snippet."""
    m = re.match(r"\s*([A-Za-z_:]+)!\s*[\(\[\{](.*)[\)\]\}]\s*$", snip, re.S)
    if not m:
        return None
    name, inner = m.group(1), m.group(2)
    # split top-level commas
    parts, depth, cur, in_str, esc = [], 0, "", False, False
    for ch in inner:
        if in_str:
            cur += ch
            if esc:
                esc = False
            elif ch == "\\":
                esc = True
            elif ch == '"':
                in_str = False
            continue
        if ch == '"':
            in_str = True
            cur += ch
        elif ch in "([{":
            depth += 1
            cur += ch
        elif ch in ")]}":
            depth -= 1
            cur += ch
        elif ch == "," and depth == 0:
            parts.append(cur.strip())
            cur = ""
        else:
            cur += ch
    if cur.strip():
        parts.append(cur.strip())
    # template = first part that is a string literal (write!(f, "..") has f first)
    ti = None
    for i, p in enumerate(parts):
        if p.startswith('"') or p.startswith('r"') or p.startswith('r#"'):
            ti = i
            break
    if ti is None:
        return None
    lit = parts[ti]
    mm = re.match(r'r?#*"(.*)"#*$', lit, re.S)
    template = mm.group(1) if mm else lit
    if not lit.startswith("r"):
        template = template.replace('\\"', '"').replace("\\n", "\n").replace("\\\\", "\\")
    return name.split("::")[-1], template, parts[ti + 1:]


def template_pieces(template, explicit_srcs, args):
    """Split a format template into pieces with placeholders resolved to arg terms."""
    names = {}
    n_pos = 0
    for i, src in enumerate(explicit_srcs):
        m = re.match(r"([A-Za-z_][A-Za-z0-9_]*)\s*=[^=]", src)
        if m:
            names[m.group(1)] = i
        else:
            n_pos += 1
    pieces = []
    pos = 0
    next_capture = len(explicit_srcs)
    captures = {}
    i = 0
    text = ""
    while i < len(template):
        ch = template[i]
        if ch == "{":
            if template[i + 1:i + 2] == "{":
                text += "{"
                i += 2
                continue
            j = template.index("}", i)
            inner = template[i + 1:j]
            argname, _, spec = inner.partition(":")
            argname = argname.strip()
            if argname == "":
                idx = pos
                pos += 1
            elif argname.isdigit():
                idx = int(argname)
            elif argname in names:
                idx = names[argname]
            else:
                if argname not in captures:
                    captures[argname] = next_capture
                    next_capture += 1
                idx = captures[argname]
            if text:
                pieces.append(("s", text))
                text = ""
            term = args[idx] if idx < len(args) else ("var", argname or "?")
            pieces.append(("a", term, spec))
            i = j + 1
        elif ch == "}" and template[i + 1:i + 2] == "}":
            text += "}"
            i += 2
        else:
            text += ch
            i += 1
    if text:
        pieces.append(("s", text))
    return pieces


def is_call_t(t):
    return isinstance(t, tuple) and t and t[0] == "call"


def _is_struct_pat(p):
    """A struct / tuple-struct pattern whose path is the matched type itself (not an enum variant)."""
    path = (p.get("path") or "").split("<")[0]
    ty = (p.get("ty") or "").replace("&mut ", "").replace("&", "").split("<")[0].strip()
    return bool(path) and path == ty


WORLD = {}          # id(body) -> {def path: body} of the crate the body belongs to (registered by facts.Facts)
_KNOWN_FNS = None
_KNOWN_PARAMS = {}


def known_functions():
    global _KNOWN_FNS, _KNOWN_PARAMS
    if _KNOWN_FNS is None:
        import json
        import os
        p = os.path.join(os.path.dirname(os.path.dirname(os.path.abspath(__file__))), "tables", "functions.json")
        try:
            with open(p) as f:
                t = json.load(f)
            _KNOWN_FNS = set(t["functions"]) | set(t.get("consts", []))
            _KNOWN_PARAMS = t.get("params", {})
        except OSError:
            _KNOWN_FNS = set()
    return _KNOWN_FNS


def reviewed_param_name(fn, i, actual):
    """Parameters are named as on the reviewed tree (by position): a renamed parameter changes no term."""
    known_functions()
    names = _KNOWN_PARAMS.get(fn)
    if names and i < len(names) and names[i]:
        return names[i]
    return actual


FN_RET = {}


class AutoInline:
    """Inline map used when a rule does not name one: explicit entries first, then every crate-local fn that did not exist on the
    reviewed tree (tables/functions.json) - a helper introduced by a later edit - so that extracting code into a helper, or calling a
    new one, leaves the paths and terms the rules look at unchanged."""

    def __init__(self, body, explicit=None):
        self.explicit = explicit or {}
        self.world = WORLD.get(id(body)) or {}
        self.owner = body.get("def")

    def get(self, cal):
        if cal in self.explicit:
            return self.explicit[cal]
        if cal is None or cal == self.owner or cal in known_functions():
            return None
        b = self.world.get(cal)
        if b is None or b.get("kind") not in ("Fn", "AssocFn") or "::tests::" in cal:
            return None
        if b.get("ret") == "bool":
            # a predicate that searches (a loop with an early `return true`) stays a call: written out it would only scatter loop conditions
            # over the caller's paths; rules that need it judge the predicate as a function (c09.membership_const)
            from .facts import walk
            if any(n.get("k") in ("loop",) or (n.get("k") == "match" and n.get("src") in ("for", "while")) for n in walk(b["body"])):
                return None
        return b


class SymX:
    def __init__(self, body, macros=None, inline=None, depth=0):
        self.body = body
        self.macros = macros if macros is not None else body.get("macros", [])
        self.done = []
        self.npaths = 0
        self.inline = inline if isinstance(inline, AutoInline) else AutoInline(body, inline)     # local fns to inline at call sites
        self.depth = depth
        self.breaks, self.continues = [], []

    def _sub(self):
        sx = SymX(self.body, self.macros, self.inline, self.depth)
        return sx

    def inline_call(self, cal, vals, s, node):
        """Evaluate a local callee's paths with its parameters bound to the argument terms."""
        cb = self.inline.get(cal)
        if cb is None or self.depth >= 3 or cb is self.body:
            return None
        WORLD.setdefault(id(cb), self.inline.world)
        sub = SymX(cb, None, self.inline, self.depth + 1)
        st0 = St()
        for i, p in enumerate(cb.get("params", [])):
            sub.bind(p, vals[i] if i < len(vals) else None, st0)
        root = cb["body"]
        fut = async_inner(root)
        if fut is not None:
            # a new async helper: its body runs when the returned future is awaited; `helper(..).await` is judged as the body inlined
            for p in fut.get("params", []):
                sub.bind(p, None, st0)
            root = fut["body"]
        outs = sub.ev(root, st0)
        paths = [Path(bs, "fall", bv) for bs, bv in outs] + sub.done
        paths = sub._expand_returned_map(paths)      # a helper that returns `x.map(f)` / `x.and_then(f)` has those two exits
        res = []
        ret_ty = cb.get("ret", "")
        for p in paths:
            v = p.ret
            if p.kind == "try":
                if ret_ty.startswith("std::option::Option<"):
                    v = ("ctor", "std::option::Option::None", [])
                else:
                    v = ("ctor", "std::result::Result::Err", [("call", "<from-err>", [p.ret[1]], node)])
            off = len(s.conds)
            shifted = [(t[:4] + (t[4] + off,)) if (len(t) > 4 and isinstance(t[4], int)) else t for t in p.trace]
            s2 = St(dict(s.env), s.conds + p.conds, s.trace + [("call", "<enter>", [("lit", cal)], node, off)] + shifted)
            res.append((s2, ("future", v) if fut is not None else v))
        return res

    # -- Option / Result combinators that take the two continuations as functions ----------
    def apply_fn(self, fv, vals, s, e):
        """Apply a closure term or a function / constructor path to argument terms: [(state, value)]."""
        if isinstance(fv, tuple) and fv[0] == "closure" and self.depth < 3:
            sub = SymX(self.body, self.macros, self.inline, self.depth + 1)
            st0 = St(env=dict(fv[2]) if len(fv) > 2 else {})
            for i, pp in enumerate(fv[1].get("params", [])):
                sub.bind(pp, vals[i] if i < len(vals) else None, st0)
            c_outs = sub.ev(fv[1]["body"], st0)
            off = len(s.conds)
            res = []
            for p in [Path(bs, "fall", bv) for bs, bv in c_outs] + sub.done:
                v = p.ret
                if p.kind == "try":
                    v = ("ctor", "std::result::Result::Err", [("call", "<from-err>", [p.ret[1]], e)])
                shifted = [(t[:4] + (t[4] + off,)) if (len(t) > 4 and isinstance(t[4], int)) else t for t in p.trace]
                res.append((St(dict(s.env), s.conds + p.conds, s.trace + shifted), v))
            return res
        if isinstance(fv, tuple) and fv[0] == "ctor" and not fv[2]:
            return [(s, ("ctor", fv[1], list(vals)))]
        if isinstance(fv, tuple) and fv[0] == "def" and fv[1].split("::")[-1][:1].isupper() and fv[1] not in (self.inline.world or {}):
            return [(s, ("ctor", fv[1], list(vals)))]        # a tuple-variant / tuple-struct constructor used as a function
        if isinstance(fv, tuple) and fv[0] == "def":
            inl = self.inline_call(fv[1], list(vals), s, e)         # a new helper passed as a function value is judged inlined like a called one
            if inl is not None:
                return inl
            node = dict(e, ty=FN_RET[fv[1]]) if (fv[1] in FN_RET and isinstance(e, dict)) else e
            t = ("call", fv[1], list(vals), node)
            s2 = s.fork()
            s2.log(t)
            return [(s2, t)]
        return None

    def _strip_adaptors(self, sub, itv, s_body, e):
        """`it.filter(p)` / `.filter_map(f)` / `.map(f)` in front of a loop: (adaptors, underlying iterator, [(state, element term)], skipped states, ok)."""
        adaptors, base_it = [], itv
        while is_call_t(base_it) and base_it[1] in ("std::iter::Iterator::filter", "std::iter::Iterator::filter_map", "std::iter::Iterator::map") and \
                len(base_it[2]) == 2 and isinstance(base_it[2][1], tuple) and base_it[2][1][0] == "closure":
            adaptors.append((base_it[1].split("::")[-1], base_it[2][1]))
            base_it = base_it[2][0]
        states, skipped, okd = [(s_body, ("elem", base_it))], [], True
        for kind, clo in reversed(adaptors):
            nxt = []
            for st_c, cur in states:
                res = sub.apply_fn(clo, [cur], st_c, e)
                if res is None:
                    okd = False
                    break
                for s2_, v in res:
                    if kind == "filter":
                        nxt.append((s2_.cond(("if", v, True)), cur))
                        skipped.append(s2_.cond(("if", v, False)))
                    elif kind == "filter_map":
                        pn = {"k": "ptuplestruct", "path": "std::prelude::v1::Some", "pats": [{"k": "bind", "name": "v", "id": -1}]}
                        nxt.append((s2_.cond(("match", v, "std::prelude::v1::Some(v)", True, pn, [], [])), ("proj", v, "Some.0")))
                        skipped.append(s2_.cond(("match", v, "!std::prelude::v1::Some(v)", False, pn)))
                    else:
                        nxt.append((s2_, v))
            if not okd:
                break
            states = nxt
        return adaptors, base_it, states, skipped, okd

    def _be_fold(self, name, vals, clo, params, e):
        """`buf.iter().fold(0uN, |acc, &b| (acc << 8) | uN::from(b))` over a byte array of exactly N/8 bytes is `uN::from_be_bytes(buf)`."""
        if name != "fold" or vals[1] != ("lit", 0):
            return None
        ty = str(e.get("ty") or "")
        width = {"u16": 2, "u32": 4, "u64": 8}.get(ty)
        base = unwrap(e["recv"])
        while base.get("k") in ("mcall", "call") and (base.get("name") in ("iter", "into_iter") or str(base.get("callee") or "").split("::")[-1] in ("iter", "into_iter")):
            base = unwrap(base["recv"] if base.get("k") == "mcall" else base["args"][0])
        while base.get("k") in ("ref", "un"):
            base = unwrap(base["e"])
        bty = str(base.get("ty") or "").replace("&", "").replace("mut ", "").strip()
        if width is None or bty != "[u8; %d]" % width:
            return None
        st0 = St(env=dict(clo[2]) if len(clo) > 2 else {})
        sub = SymX(self.body, self.macros, self.inline, self.depth + 1)
        acc, el = ("var", "$acc"), ("var", "$byte")
        sub.bind(params[0], acc, st0)
        sub.bind(params[1], el, st0)
        outs = sub.ev(clo[1]["body"], st0)
        if len(outs) != 1 or sub.done:
            return None
        r = outs[0][1]

        def widen(x):
            while isinstance(x, tuple) and ((x[0] == "cast" and str(x[1]) == ty) or (is_call_t(x) and x[1] in ("std::convert::From::from", "std::convert::Into::into") and len(x[2]) == 1)):
                x = x[2] if x[0] == "cast" else x[2][0]
            return x
        if isinstance(r, tuple) and r[0] == "bin" and r[1] in ("BitOr", "Add", "BitXor"):
            a, b = r[2], r[3]
            for hi, lo in ((a, b), (b, a)):
                if isinstance(hi, tuple) and hi[0] == "bin" and ((hi[1] == "Shl" and hi[3] == ("lit", 8)) or (hi[1] == "Mul" and hi[3] == ("lit", 256))) and hi[2] == acc and widen(lo) == el:
                    it = vals[0]
                    while is_call_t(it) and it[1].split("::")[-1] in ("iter", "into_iter") and it[2]:
                        it = it[2][0]
                    return ("call", "core::num::<impl %s>::from_be_bytes" % ty, [it], e)
        return None

    def fold_as_loop(self, target, vals, s, e):
        """`it.fold(init, |acc, x| body)` is `let mut acc = init; for x in it { acc = body }; acc`; `it.for_each(|x| body)` is `for x in it { body }`:
        the same <for> trace entry (nested path set, phi for the carried value) as the loop statement."""
        name = target.split("::")[-1]
        if name == "try_fold" and target.startswith("std::iter::Iterator::"):
            name = "fold"       # `it.try_fold(init, |acc, x| -> Result)`: the same loop, the accumulator wrapped in Ok, leaving early on the first Err
        if not target.startswith("std::iter::Iterator::") or name not in ("fold", "for_each"):
            return None
        clo = vals[-1]
        if not (isinstance(clo, tuple) and clo[0] == "closure") or self.depth >= 3:
            return None
        params = clo[1].get("params", [])
        if (name == "fold" and (len(vals) != 3 or len(params) != 2)) or (name == "for_each" and (len(vals) != 2 or len(params) != 1)):
            return None
        itv = vals[0]
        be = self._be_fold(name, vals, clo, params, e)
        if be is not None:
            s2 = s.fork()
            s2.log(be)
            return [(s2, be)]
        lit = itv
        while is_call_t(lit) and lit[1].split("::")[-1] in ("into_iter", "iter") and lit[2]:
            lit = lit[2][0]
        if isinstance(lit, tuple) and lit[0] in ("array", "tuple") and 0 < len(lit[1]) <= 4:
            # a fold / for_each over a short literal array is its closure applied once per element, in order
            states = [(s, vals[1] if name == "fold" else ("unit",))]
            for el in lit[1]:
                nxt = []
                for s_cur, acc in states:
                    r = self.apply_fn(clo, [acc, el] if name == "fold" else [el], s_cur, e)
                    if r is None:
                        nxt = None
                        break
                    nxt.extend(r)
                if nxt is None:
                    states = None
                    break
                states = nxt
                self._guard(len(states))
            if states is not None:
                return [(s_, v_ if name == "fold" else ("unit",)) for s_, v_ in states]
        sub = SymX(self.body, self.macros, self.inline, self.depth + 1)
        s_body = St(env=dict(clo[2]) if len(clo) > 2 else dict(s.env))
        adaptors, base_it, states, skipped, okd = self._strip_adaptors(sub, itv, s_body, e)
        if adaptors and okd:
            # `it.filter(p).for_each(g)` is `for x in it { if p(&x) { g(x) } }`: the loop is recorded over the underlying iterator
            itv = base_it
            body_outs = []
            for st_c, cur in states:
                if name == "fold":
                    sub.bind(params[0], vals[1], st_c)
                    sub.bind(params[1], cur, st_c)
                else:
                    sub.bind(params[0], cur, st_c)
                body_outs.extend(sub.ev(clo[1]["body"], st_c))
            body_outs.extend((sk, vals[1] if name == "fold" else ("unit",)) for sk in skipped)
        else:
            if name == "fold":
                sub.bind(params[0], vals[1], s_body)
                sub.bind(params[1], ("elem", itv), s_body)
            else:
                sub.bind(params[0], ("elem", itv), s_body)
            body_outs = sub.ev(clo[1]["body"], s_body)
        body_paths = [Path(bs, "fall", bv) for bs, bv in body_outs] + [Path(p.env and St(dict(p.env), p.conds, p.trace) or St(), "fall", p.ret) for p in sub.done if p.kind in ("return",)]
        pat = params[-1]
        node = {"paths": body_paths, "ln": e.get("ln"), "pat": pat}
        s2 = s.fork()
        s2.log(("call", "<for>", [itv, ("lit", show(pat))], node))
        if name == "fold":
            return (s2, ("phi", vals[1], [p.ret for p in body_paths], id(node)))
        return (s2, ("unit",))

    def expand_combinator(self, target, vals, s, e):
        """`x.map_or_else(on_none, on_some)`, `x.map_or(default, f)`, `x.unwrap_or_else(f)`: the two arms of the match they stand for."""
        name = target.split("::")[-1]
        if target in ("core::bool::<impl bool>::then_some", "core::bool::<impl bool>::then") and len(vals) == 2:
            # `c.then_some(v)` is `if c { Some(v) } else { None }` (`then` evaluates its closure on the true side only)
            if name == "then_some":
                yes = [(s.cond(("if", vals[0], True)), vals[1])]
            else:
                yes = self.apply_fn(vals[1], [], s.cond(("if", vals[0], True)), e)
            if yes is not None:
                if isinstance(vals[0], tuple) and vals[0][0] == "lit" and isinstance(vals[0][1], bool):
                    return ([(s, ("ctor", "std::prelude::v1::Some", [vals[1]]))] if name == "then_some" else None) if vals[0][1] else [(s, ("ctor", "std::prelude::v1::None", []))]
                return [(s2, ("ctor", "std::prelude::v1::Some", [v])) for s2, v in yes] + [(s.cond(("if", vals[0], False)), ("ctor", "std::prelude::v1::None", []))]
        is_res = target.startswith("std::result::Result::")
        is_opt = target.startswith("std::option::Option::")
        known = self.on_known_ctor(name, vals, s, e) if (is_res or is_opt) and vals else None
        if known is not None:
            return known
        if not (is_res or is_opt) or name not in ("map_or_else", "map_or"):
            return None         # (unwrap_or_else / unwrap_or stay terms: several rules read them as "value or fallback")
        x = vals[0]
        good = "std::prelude::v1::Ok(v)" if is_res else "std::prelude::v1::Some(v)"
        patnode = {"k": "ptuplestruct", "path": "std::prelude::v1::" + ("Ok" if is_res else "Some"), "pats": [{"k": "bind", "name": "v", "id": -1}]}
        val = ("proj", x, ("Ok" if is_res else "Some") + ".0")
        errv = ("proj", x, "Err.0")
        s_yes = s.cond(("match", x, good, True, patnode, [], []))
        s_no = s.cond(("match", x, "!" + good, False, patnode))
        if name == "map_or_else" and len(vals) == 3:
            a = self.apply_fn(vals[2], [val], s_yes, e)
            b = self.apply_fn(vals[1], [errv] if is_res else [], s_no, e)
        elif name == "map_or" and len(vals) == 3:
            a = self.apply_fn(vals[2], [val], s_yes, e)
            b = [(s_no, vals[1])]
        elif name == "unwrap_or_else" and len(vals) == 2:
            a = [(s_yes, val)]
            b = self.apply_fn(vals[1], [errv] if is_res else [], s_no, e)
        else:
            return None
        if a is None or b is None:
            return None
        return a + b

    def on_known_ctor(self, name, vals, s, e):
        """An Option / Result combinator applied to a value whose constructor is known on this path (an inlined helper returned
        `Some(4)` / `Ok(x)` / `None`) is folded to what it evaluates to: `Some(v).is_some_and(f)` is `f(v)`, `Ok(x).map(f)` is `Ok(f(x))`."""
        x = vals[0]
        if not (isinstance(x, tuple) and x[0] == "ctor" and isinstance(x[2], list)):
            return None
        head = x[1].split("::")[-1]
        if head not in ("Some", "Ok", "None", "Err") or (head != "None" and len(x[2]) != 1):
            return None
        good = head in ("Some", "Ok")
        inner = x[2][0] if x[2] else None
        lit = lambda b: [(s, ("lit", b))]
        if name in ("is_some", "is_ok"):
            return lit(good)
        if name in ("is_none", "is_err"):
            return lit(not good)
        if name in ("is_some_and", "is_ok_and") and len(vals) == 2:
            return self.apply_fn(vals[1], [inner], s, e) if good else lit(False)
        if name == "is_none_or" and len(vals) == 2:
            return self.apply_fn(vals[1], [inner], s, e) if good else lit(True)
        if name == "map" and len(vals) == 2:
            if not good:
                return [(s, x)]
            r = self.apply_fn(vals[1], [inner], s, e)
            return None if r is None else [(s2, ("ctor", x[1], [v])) for s2, v in r]
        if name == "map_err" and len(vals) == 2:
            if good or head == "None":
                return [(s, x)]
            r = self.apply_fn(vals[1], [inner], s, e)
            return None if r is None else [(s2, ("ctor", x[1], [v])) for s2, v in r]
        if name == "and_then" and len(vals) == 2:
            return self.apply_fn(vals[1], [inner], s, e) if good else [(s, x)]
        if name in ("map_or", "map_or_else") and len(vals) == 3:
            if good:
                return self.apply_fn(vals[2], [inner], s, e)
            return [(s, vals[1])] if name == "map_or" else self.apply_fn(vals[1], [inner] if head == "Err" else [], s, e)
        if name in ("unwrap_or", "unwrap_or_default", "unwrap", "expect") and good:
            return [(s, inner)]
        if name == "unwrap_or" and len(vals) == 2:
            return [(s, vals[1])]
        if name == "unwrap_or_else" and len(vals) == 2:
            return [(s, inner)] if good else self.apply_fn(vals[1], [inner] if head == "Err" else [], s, e)
        if name == "ok_or" and len(vals) == 2:
            return [(s, ("ctor", "std::prelude::v1::Ok", [inner]) if good else ("ctor", "std::prelude::v1::Err", [vals[1]]))]
        if name == "ok" and len(vals) == 1:
            return [(s, ("ctor", "std::prelude::v1::Some", [inner]) if good else ("ctor", "std::prelude::v1::None", []))]
        return None

    # -- entry ---------------------------------------------------------------------------
    def run(self, node=None, params=None, env=None):
        st = St(env=dict(env or {}))
        for i, p in enumerate(params if params is not None else self.body.get("params", [])):
            if params is None and p.get("k") == "bind" and "sub" not in p:
                st.env[p["id"]] = ("var", reviewed_param_name(self.body.get("def"), i, p["name"]))
            else:
                self.bind(p, None, st, top=True)
        root = node if node is not None else self.body["body"]
        inner = async_inner(root)
        if inner is not None:
            # async fn: evaluate the coroutine body; `.await` nodes become ('await', t)
            for p in inner.get("params", []):
                self.bind(p, None, st)
            root = inner["body"]
        outs = self.ev(root, st)
        for s, v in outs:
            self.done.append(Path(s, "fall", v))
        if node is None and self.depth == 0:
            self.done = self._expand_returned_map(self.done)
        return self.done

    def _expand_returned_map(self, paths):
        """A function that *returns* `x.map(f)` returns `Ok(f(v))` when x is Ok(v) and x's own error otherwise - the same two exits as
        `let v = x?; Ok(f(v))` when the error types agree. Only the returned value is expanded (a stored `map` result stays a term)."""
        out = []
        for p in paths:
            v = p.ret
            w = v[1] if (isinstance(v, tuple) and v[0] == "await") else v
            tested = any(isinstance(c[1], tuple) and (c[1] is w or (c[1][0] == "call" and c[1][2] and c[1][2][0] is w)) for c in p.conds if len(c) > 1)
            if p.kind in ("fall", "return") and not tested and is_call_t(w) and w[1] in ("std::result::Result::<T, E>::map", "std::option::Option::<T>::map",
                                                                                          "std::result::Result::<T, E>::and_then", "std::option::Option::<T>::and_then") and len(w[2]) == 2:
                x, f = w[2]
                node = w[3] if len(w) > 3 else None
                s = St(dict(p.env), list(p.conds), [t for t in p.trace if t is not w and not (is_call_t(t) and len(t) > 3 and t[3] is node and t[1] == w[1])])
                # the receiver may itself be `y.map(g)`: `y.map(g).and_then(f)` is `f(g(y?))`
                inner_ok = [(s.cond(("if", ("call", "<is_err>", [x], node), False)), ("ok?", x))]
                err_of = x
                if is_call_t(x) and x[1] in ("std::result::Result::<T, E>::map", "std::option::Option::<T>::map") and len(x[2]) == 2:
                    y, g = x[2]
                    s_y = St(dict(s.env), list(s.conds), [t for t in s.trace if t is not x and not (is_call_t(t) and len(t) > 3 and len(x) > 3 and t[3] is x[3] and t[1] == x[1])])
                    got = self.apply_fn(g, [("ok?", y)], s_y.cond(("if", ("call", "<is_err>", [y], node), False)), node)
                    if got is not None:
                        inner_ok, err_of, s = got, y, s_y
                applied = []
                for s_ok, arg in inner_ok:
                    r_ = self.apply_fn(f, [arg], s_ok, node)
                    if r_ is None:
                        applied = None
                        break
                    applied.extend(r_)
                if applied is not None:
                    good = "std::prelude::v1::Ok" if w[1].startswith("std::result") else "std::prelude::v1::Some"
                    is_map = w[1].endswith("::map")
                    nxt = [Path(s2, p.kind, ("ctor", good, [val]) if is_map else val) for s2, val in applied]
                    if not is_map:
                        nxt = self._expand_returned_map(nxt)     # the closure's own result may be a `z.map(h)` again
                    out.extend(nxt)
                    out.append(Path(s.cond(("if", ("call", "<is_err>", [err_of], node), True)), "try", ("err?", err_of)))
                    continue
            out.append(p)
        return out

    # -- patterns ------------------------------------------------------------------------
    def bind(self, p, val, st, top=False):
        k = p["k"]
        if k == "bind":
            st.env[p["id"]] = val if val is not None else ("var", p["name"])
            if "sub" in p:
                self.bind(p["sub"], val, st)
        elif k in ("pref", "pderef"):
            self.bind(p["p"], val, st)
        elif k == "ptuple":
            for i, q in enumerate(p["pats"]):
                v = None
                if val is not None:
                    v = val[1][i] if (val[0] == "tuple" and i < len(val[1])) else ("proj", val, str(i))
                self.bind(q, v, st)
        elif k == "ptuplestruct":
            for i, q in enumerate(p["pats"]):
                v = None
                if val is not None:
                    if val[0] == "ctor" and (val[1] == p.get("path") or (val[1].split("::")[-1] in ("Some", "Ok", "Err") and val[1].split("::")[-1] == (p.get("path") or "").split("::")[-1])) \
                            and isinstance(val[2], list) and i < len(val[2]):
                        v = val[2][i]
                    elif _is_struct_pat(p):
                        v = ("field", val, str(i))          # `let Self(x) = v` is `v.0`
                    else:
                        v = ("proj", val, "%s.%d" % ((p.get("path") or "?").split("::")[-1], i))
                self.bind(q, v, st)
        elif k == "pstruct":
            for f in p["fields"]:
                v = None
                if val is not None:
                    if val[0] == "ctor" and isinstance(val[2], dict) and f["name"] in val[2]:
                        v = val[2][f["name"]]
                    elif _is_struct_pat(p):
                        v = ("field", val, f["name"])       # destructuring a struct is field access: `let Self { a, .. } = v` is `v.a`
                    else:
                        v = ("proj", val, "%s.%s" % ((p.get("path") or "?").split("::")[-1], f["name"]))
                self.bind(f["p"], v, st)
        elif k == "por":
            # bindings in or-patterns: bind from the first alternative (same names in all)
            for q in p["pats"][:1]:
                self.bind(q, ("proj", val, "or") if val is not None else None, st)
        elif k == "pguard":
            self.bind(p["p"], val, st)
        elif k == "pslice":
            # `let [a, b] = arr` is arr[0], arr[1]
            for i, q in enumerate(p.get("before", [])):
                self.bind(q, ("index", val, ("lit", i)) if val is not None else None, st)
        # wild, pexpr, prange, pslice: nothing to bind (slices rare here)

    # -- helpers -------------------------------------------------------------------------
    def seq(self, nodes, st):
        """Evaluate a list of expressions left to right; returns [(st, [vals])]."""
        outs = [(st, [])]
        for n in nodes:
            nxt = []
            for s, vals in outs:
                for s2, v in self.ev(n, s):
                    nxt.append((s2, vals + [v]))
            outs = nxt
            self._guard(len(outs))
        return outs

    def _guard(self, n):
        if n + len(self.done) > MAX_PATHS:
            raise TooManyPaths(self.body.get("def"))

    def place_key(self, n):
        """Key for assignable places: local id, or (local id, field, field, ..)."""
        n = unwrap(n)
        fields = []
        while isinstance(n, dict):
            if n.get("k") == "field":
                fields.append(n["name"])
                n = unwrap(n["e"])
            elif n.get("k") == "un" and n.get("op") == "Deref":
                n = unwrap(n["e"])
            elif n.get("k") == "ref":
                n = unwrap(n["e"])
            else:
                break
        if isinstance(n, dict) and n.get("k") == "path" and n["res"].get("r") == "local":
            if fields:
                return (n["res"]["id"],) + tuple(reversed(fields))
            return n["res"]["id"]
        return None

    def macro_name(self, e):
        exp = e.get("exp") or []
        for name in reversed(exp):  # outermost first
            if not name.startswith("desugar:") and not name.startswith("astpass:"):
                return name.split("::")[-1]
        return None

    def fmt_term(self, e, st):
        """e is the outermost node of a format-family macro expansion."""
        mx = e.get("mx")
        parsed = parse_format_snippet(self.macros[mx]["snip"]) if mx is not None and mx < len(self.macros) else None
        # argument expressions: the `let args = (&a, &b, ..)` tuple if present, else Argument::new_* operands
        from .facts import walk
        arg_nodes = None
        direct = []
        for n in walk(e):
            if n.get("k") == "let" and n["pat"].get("k") == "bind" and n["pat"].get("name") == "args" and "init" in n \
                    and n.get("exp") and arg_nodes is None:
                init = unwrap(n["init"])
                if init.get("k") == "tup":
                    arg_nodes = [x["e"] if x.get("k") == "ref" else x for x in init["es"]]
            if n.get("k") == "call" and (n.get("callee") or "").startswith("core::fmt::rt::Argument::<'_>::new_"):
                a = unwrap(n["args"][0])
                if a.get("k") == "ref":
                    a = a["e"]
                direct.append(a)
        if arg_nodes is None:
            arg_nodes = [a for a in direct if not (a.get("k") == "field" and unwrap(a["e"]).get("k") == "path"
                                                   and unwrap(a["e"])["res"].get("name") == "args")]
        outs = self.seq(arg_nodes, st)
        res = []
        for s, vals in outs:
            if parsed:
                name, template, srcs = parsed
                # write!(f, ..) family: the writer is not an argument
                pieces = template_pieces(template, srcs, vals)
                res.append((s, ("fmt", pieces), name))
            else:
                res.append((s, ("fmt", [("a", v, "") for v in vals]), self.macro_name(e)))
        return res

    # -- expressions ---------------------------------------------------------------------
    def ev(self, e, st):
        e = unwrap(e) if e.get("k") in ("use", "ascribe") else e
        k = e["k"]
        # format-family macro expansions are summarised as one term
        if e.get("exp") and k in ("call", "blockx", "block", "match", "mcall"):
            mn = self.macro_name(e)
            if mn in FMT_MACROS:
                outs = []
                for s, term, name in self.fmt_term(e, st):
                    if name in ("format",):
                        outs.append((s, term))
                    elif name in ("trace", "debug", "info", "warn", "error", "log"):
                        s2 = s.fork()
                        s2.log(("call", "log::" + name, [term], e))
                        outs.append((s2, ("unit",)))
                    else:
                        s2 = s.fork()
                        t = ("call", "macro::" + (name or "?"), [term], e)
                        s2.log(t)
                        outs.append((s2, t))
                return outs
        if k == "lit":
            return [(st, ("lit", e["v"]))]
        if k == "path":
            r = e["res"]
            if r.get("r") == "local":
                return [(st, st.env.get(r["id"], ("var", r["name"])))]
            if e.get("ctor"):
                return [(st, ("ctor", e["ctor"], []))]
            cpath = r.get("path", "?")
            if cpath not in known_functions() and self.depth < 3:
                # a constant introduced by a later edit stands for its value (like a new helper is inlined)
                cb = self.inline.world.get(cpath)
                if cb is not None and ("Const" in str(cb.get("kind")) ) and "::tests::" not in cpath:
                    sub = SymX(cb, None, self.inline, self.depth + 1)
                    vals = sub.ev(cb["body"], St())
                    if len(vals) == 1 and not sub.done and isinstance(vals[0][1], tuple) and vals[0][1][0] in ("ctor", "lit", "def", "cast"):
                        return [(st, vals[0][1])]
            m = re.match(r"^(?:unsafe )?fn\(.*\) -> ([A-Za-z0-9_]+) \{", str(e.get("ty") or ""))
            if m:
                FN_RET[r.get("path", "?")] = m.group(1)         # `usize::from` used as a value: its result type, for integer-conversion idioms
            return [(st, ("def", r.get("path", "?")))]
        if k == "call":
            outs = []
            for s, vals in self.seq(e["args"], st):
                if e.get("ctor"):
                    outs.append((s, ("ctor", e["ctor"], vals)))
                    continue
                cal = e.get("callee")
                if cal is None:
                    # calling a closure / fn pointer value
                    fv = None
                    for s1, f in self.ev(e["f"], s):
                        fv = f
                    if isinstance(fv, tuple) and fv[0] == "closure" and self.depth < 3:
                        # inline the closure body at its call
                        sub = SymX(self.body, self.macros, self.inline, self.depth + 1)
                        st0 = St(env=dict(fv[2]) if len(fv) > 2 else {})
                        for i, pp in enumerate(fv[1].get("params", [])):
                            sub.bind(pp, vals[i] if i < len(vals) else None, st0)
                        c_outs = sub.ev(fv[1]["body"], st0)
                        off = len(s.conds)
                        for p in [Path(bs, "fall", bv) for bs, bv in c_outs] + sub.done:
                            v = p.ret
                            if p.kind == "try":
                                v = ("ctor", "std::result::Result::Err", [("call", "<from-err>", [p.ret[1]], e)])
                            shifted = [(t[:4] + (t[4] + off,)) if (len(t) > 4 and isinstance(t[4], int)) else t for t in p.trace]
                            s2 = St(dict(s.env), s.conds + p.conds, s.trace + shifted)
                            outs.append((s2, v))
                        continue
                    if isinstance(fv, tuple) and fv[0] == "ctor" and not fv[2]:
                        outs.append((s, ("ctor", fv[1], vals)))      # a variant constructor held in a variable (`let c = IppValue::Uri; c(text)`)
                        continue
                    if isinstance(fv, tuple) and fv[0] == "def":
                        applied = self.apply_fn(fv, vals, s, e)
                        if applied is not None:
                            outs.extend(applied)
                            continue
                    t = ("call", "<indirect>", [fv] + vals, e)
                else:
                    if cal == "std::default::Default::default" and not vals:
                        dv = default_value(str(e.get("ty") or ""))
                        if dv is not None:
                            outs.append((s, dv[:3] + (e,) if dv[0] == "call" else dv))
                            continue
                    res = e["f"].get("res", {}) if isinstance(e.get("f"), dict) else {}
                    inl = self.inline_call(res.get("resolved") or cal, vals, s, e)
                    if inl is not None:
                        outs.extend(inl)
                        continue
                    t = ("call", cal, vals, e)
                s2 = s.fork()
                s2.log(t)
                outs.append((s2, t))
            return outs
        if k == "mcall":
            outs = []
            for s, vals in self.seq([e["recv"]] + e["args"], st):
                target = e.get("callee") or ("?." + e["name"])
                inl = self.inline_call(e.get("resolved") or target, vals, s, e)
                if inl is not None:
                    outs.extend(inl)
                    continue
                if target in ("std::option::Option::<T>::as_ref", "std::option::Option::<T>::as_mut", "std::option::Option::<T>::as_deref", "std::option::Option::<T>::as_deref_mut",
                              "std::result::Result::<T, E>::as_ref", "std::result::Result::<T, E>::as_mut") and len(vals) == 1:
                    outs.append((s, vals[0]))
                    continue
                if target == "std::default::Default::default" and not vals:
                    dv = default_value(str(e.get("ty") or ""))
                    if dv is not None:
                        outs.append((s, dv))
                        continue
                if target == "std::iter::Extend::extend" and len(vals) == 2 and str(unwrap(e["args"][0]).get("ty") or "").startswith("std::option::Option<"):
                    # `v.extend(opt)` is `if let Some(x) = opt { v.push(x) }` (for a map: `m.insert(k, v)` of the pair)
                    rty = str(e["recv"].get("ty") or "").replace("&mut ", "").replace("&", "")
                    for a_ in (e["recv"].get("adj") or []):
                        rty = str(a_.get("to") or rty).replace("&mut ", "").replace("&", "")
                    x = vals[1]
                    head = x[1].split("::")[-1] if (isinstance(x, tuple) and x[0] == "ctor") else None
                    pn = {"k": "ptuplestruct", "path": "std::prelude::v1::Some", "pats": [{"k": "bind", "name": "v", "id": -1}]}
                    yes = [] if head == "None" else [(s if head == "Some" else s.cond(("match", x, "std::prelude::v1::Some(v)", True, pn, [], [])),
                                                    x[2][0] if head == "Some" else ("proj", x, "Some.0"))]
                    no = [] if head == "Some" else [s if head == "None" else s.cond(("match", x, "!std::prelude::v1::Some(v)", False, pn))]
                    meth = None
                    if rty.startswith("std::vec::Vec<"):
                        meth = "std::vec::Vec::<T, A>::push"
                    elif rty.startswith("std::collections::BTreeMap<"):
                        meth = "std::collections::BTreeMap::<K, V, A>::insert"
                    elif rty.startswith("std::collections::HashMap<"):
                        meth = "std::collections::HashMap::<K, V, S, A>::insert"
                    if meth is not None:
                        for s_y, item in yes:
                            if meth.endswith("::push"):
                                args_ = [vals[0], item]
                            else:
                                args_ = [vals[0]] + (list(item[1]) if (isinstance(item, tuple) and item[0] == "tuple" and len(item[1]) == 2) else [("proj", item, "0"), ("proj", item, "1")])
                            t = ("call", meth, args_, e)
                            s2 = s_y.fork()
                            s2.log(t)
                            outs.append((s2, ("unit",)))
                        outs.extend((s_n, ("unit",)) for s_n in no)
                        continue
                lp = self.fold_as_loop(target, vals, s, e)
                if lp is not None:
                    outs.extend(lp if isinstance(lp, list) else [lp])
                    continue
                exp = self.expand_combinator(target, vals, s, e)
                if exp is not None:
                    outs.extend(exp)
                    continue
                t = ("call", target, vals, e)
                s2 = s.fork()
                s2.log(t)
                outs.append((s2, t))
            return outs
        if k == "field":
            outs = []
            key = self.place_key(e)
            for s, v in self.ev(e["e"], st):
                if key is not None and key in s.env:
                    outs.append((s, s.env[key]))
                elif v[0] == "ctor" and isinstance(v[2], dict) and e["name"] in v[2]:
                    outs.append((s, v[2][e["name"]]))
                elif v[0] == "tuple" and e["name"].isdigit() and int(e["name"]) < len(v[1]):
                    outs.append((s, v[1][int(e["name"])]))
                else:
                    outs.append((s, ("field", v, e["name"])))
            return outs
        if k == "ref":
            return self.ev(e["e"], st)
        if k == "un":
            if e["op"] == "Deref":
                return self.ev(e["e"], st)
            return [(s, ("lit", not v[1]) if (e["op"] == "Not" and isinstance(v, tuple) and v[0] == "lit" and isinstance(v[1], bool)) else ("un", e["op"], v))
                    for s, v in self.ev(e["e"], st)]
        if k == "bin":
            outs = []
            for s, vals in self.seq([e["a"], e["b"]], st):
                t = ("bin", e["op"], vals[0], vals[1])
                if e["op"] in ("Add", "Sub", "Mul", "Div", "Rem", "Shl", "Shr") and (e.get("ty") or "") in INT_TYPES:
                    s = s.fork()
                    s.log(("call", "<arith>", [("lit", e["op"]), vals[0], vals[1], ("lit", e.get("ty"))], e))
                outs.append((s, t))
            return outs
        if k == "cast":
            return [(s, ("cast", e.get("ty"), v)) for s, v in self.ev(e["e"], st)]
        if k == "tup":
            return [(s, ("tuple", vals)) for s, vals in self.seq(e["es"], st)]
        if k == "array":
            return [(s, ("array", vals)) for s, vals in self.seq(e["es"], st)]
        if k == "repeat":
            return [(s, ("array", [v])) for s, v in self.ev(e["e"], st)]
        if k == "index":
            outs = []
            for s, vals in self.seq([e["b"], e["i"]], st):
                s = s.fork()
                s.log(("call", "<index>", [vals[0], vals[1]], e))
                outs.append((s, ("index", vals[0], vals[1])))
            return outs
        if k == "struct":
            names = [f["name"] for f in e["fields"]]
            outs = []
            for s, vals in self.seq([f["e"] for f in e["fields"]], st):
                d = dict(zip(names, vals))
                bk = self.place_key(e["base"]) if "base" in e else None
                if bk is not None and not isinstance(bk, tuple) and str(e.get("ty") or "x") == str(unwrap(e["base"]).get("ty") or "y"):
                    # `S { f: v, ..base }` with a local base of the same type is `base.f = v; base` (functional record update)
                    s2 = s.fork()
                    for fname, fval in d.items():
                        s2.env[(bk, fname)] = fval
                    outs.extend(self.ev(e["base"], s2))
                    continue
                if "base" in e:
                    for s2, b in self.ev(e["base"], s):
                        d2 = dict(d)
                        d2["..base"] = b
                        outs.append((s2, ("ctor", e.get("path"), d2)))
                else:
                    outs.append((s, ("ctor", e.get("path"), d)))
            return outs
        if k == "blockx":
            return self.ev(e["b"], st)
        if k == "block":
            outs = [st]
            for stmt in e["stmts"]:
                nxt = []
                for s in outs:
                    nxt.extend(self.stmt(stmt, s))
                outs = nxt
                self._guard(len(outs))
            res = []
            for s in outs:
                if "expr" in e:
                    res.extend(self.ev(e["expr"], s))
                else:
                    res.append((s, ("unit",)))
            return res
        if k == "if":
            c = unwrap(e["c"])
            if c.get("k") == "letx":
                outs = []
                for s, v in self.ev(c["init"], st):
                    pr = show(c["pat"])
                    cp = c["pat"]
                    while cp.get("k") in ("pref", "pderef"):
                        cp = cp["p"]
                    if is_call_t(v) and v[1] in ("std::option::Option::<T>::map", "std::result::Result::<T, E>::map") and len(v[2]) == 2 and \
                            isinstance(v[2][1], tuple) and v[2][1][0] in ("closure", "def", "ctor") and cp.get("k") == "ptuplestruct" and \
                            (cp.get("path") or "").split("::")[-1] in ("Some", "Ok") and len(cp["pats"]) == 1:
                        # `if let Some(y) = x.map(f)` is `if let Some(v) = x { let y = f(v); .. }`
                        (x, fs_), good = self._peel_maps(v), (cp.get("path") or "").split("::")[-1]
                        s_t = s.cond(("match", x, pr, True, c["pat"]))
                        applied = self._apply_chain(fs_, ("proj", x, good + ".0"), s_t, e)
                        if applied is not None:
                            for s2, val in applied:
                                self.bind(cp["pats"][0], val, s2)
                                outs.extend(self.ev(e["t"], s2))
                            s_f = s.cond(("match", x, "!" + pr, False, c["pat"]))
                            if "e" in e:
                                outs.extend(self.ev(e["e"], s_f))
                            else:
                                outs.append((s_f, ("unit",)))
                            continue
                    vs = pat_variant_set(c["pat"])
                    known = v[1].split("::")[-1] if (isinstance(v, tuple) and v[0] == "ctor" and v[1].split("::")[-1] in ("Some", "None", "Ok", "Err")) else None
                    if known is not None and vs is not None and vs[0] != "*":
                        # the value's constructor is known on this path (an inlined helper returned it): only one side exists
                        names_ = {q.split("::")[-1] for q in vs[0]}
                        if known not in names_:
                            if "e" in e:
                                outs.extend(self.ev(e["e"], s))
                            else:
                                outs.append((s, ("unit",)))
                            continue
                        if vs[1]:
                            s_t = s.fork()
                            self.bind(c["pat"], v, s_t)
                            outs.extend(self.ev(e["t"], s_t))
                            continue
                    p_t = p_f = None
                    if vs is not None and vs[0] != "*":
                        p_t = ("in", frozenset(vs[0]))
                        p_f = ("notin", frozenset(vs[0])) if vs[1] else None
                    if p_t is None or feasible_variants(s.conds, v, p_t):
                        s_t = s.cond(("match", v, pr, True, c["pat"], [], [], p_t))
                        self.bind(c["pat"], v, s_t)
                        outs.extend(self.ev(e["t"], s_t))
                    if p_f is not None and not feasible_variants(s.conds, v, p_f):
                        continue
                    s_f = s.cond(("match", v, "!" + pr, False, c["pat"], [], [], p_f))
                    if "e" in e:
                        outs.extend(self.ev(e["e"], s_f))
                    else:
                        outs.append((s_f, ("unit",)))
                return outs
            outs = []
            for s, v in self.ev(c, st):
                if isinstance(v, tuple) and v[0] == "lit" and isinstance(v[1], bool):
                    # decided on this path (a combinator folded on a known constructor): only one side exists
                    if v[1]:
                        outs.extend(self.ev(e["t"], s))
                    elif "e" in e:
                        outs.extend(self.ev(e["e"], s))
                    else:
                        outs.append((s, ("unit",)))
                    continue
                pol_ = True
                while isinstance(v, tuple) and v[0] == "un" and v[1] == "Not":
                    v, pol_ = v[2], not pol_          # `if !x` tests x with the branches exchanged
                if isinstance(v, tuple) and v[0] == "bin" and v[1] == "Ne":
                    v, pol_ = ("bin", "Eq", v[2], v[3]), not pol_       # `a != b` is `a == b` with the branches exchanged
                outs.extend(self.ev(e["t"], s.cond(("if", v, pol_))))
                s_f = s.cond(("if", v, not pol_))
                if "e" in e:
                    outs.extend(self.ev(e["e"], s_f))
                else:
                    outs.append((s_f, ("unit",)))
            return outs
        if k == "letx":
            # bare let-expression used as a condition elsewhere (e.g. in && chains): opaque boolean
            outs = []
            for s, v in self.ev(e["init"], st):
                self.bind(e["pat"], v, s)
                outs.append((s, ("call", "<let>", [v, ("lit", show(e["pat"]))], e)))
            return outs
        if k == "match":
            return self.ev_match(e, st)
        if k == "loop":
            return self.ev_loop(e, st)
        if k == "closure":
            return [(st, ("closure", e, dict(st.env)))]
        if k == "ret":
            if "e" in e:
                for s, v in self.ev(e["e"], st):
                    self.done.append(Path(s, "return", v))
            else:
                self.done.append(Path(st, "return", ("unit",)))
            self._guard(0)
            return []
        if k == "break":
            if "e" in e:
                for s, v in self.ev(e["e"], st):
                    self.breaks.append((e.get("target"), s, v))
            else:
                self.breaks.append((e.get("target"), st, ("unit",)))
            return []
        if k == "continue":
            self.continues.append((e.get("target"), st))
            return []
        if k == "assign":
            outs = []
            key = self.place_key(e["l"])
            for s, v in self.ev(e["r"], st):
                s2 = s.fork()
                if key is not None:
                    s2.env[key] = v
                s2.log(("call", "<assign>", [("lit", show(e["l"])), v], e))
                outs.append((s2, ("unit",)))
            return outs
        if k == "assignop":
            outs = []
            key = self.place_key(e["l"])
            for s, vals in self.seq([e["l"], e["r"]], st):
                s2 = s.fork()
                nv = ("bin", e["op"].replace("Assign", ""), vals[0], vals[1])
                if key is not None:
                    s2.env[key] = nv
                s2.log(("call", "<assignop>", [("lit", show(e["l"])), ("lit", e["op"]), vals[1], ("lit", (unwrap(e["l"]) or {}).get("ty"))], e))
                outs.append((s2, ("unit",)))
            return outs
        if k == "yield":
            return [(s, ("await", v)) for s, v in self.ev(e["e"], st)]
        return [(st, ("opaque", k))]


    def stmt(self, stmt, st):
        k = stmt["k"]
        if k in ("semi", "expr"):
            return [s for s, _ in self.ev(stmt["e"], st)]
        if k == "let":
            if "init" not in stmt:
                s = st.fork()
                self.bind(stmt["pat"], None, s)
                return [s]
            outs = []
            for s, v in self.ev(stmt["init"], st):
                if "els" in stmt:
                    pr = show(stmt["pat"])
                    s_f = s.cond(("match", v, "!" + pr, False, stmt["pat"]))
                    for _s, _v in self.ev(stmt["els"], s_f):
                        pass  # else block must diverge; its returns/breaks were recorded
                    s = s.cond(("match", v, pr, True, stmt["pat"]))
                else:
                    s = s.fork()
                self.bind(stmt["pat"], v, s)
                outs.append(s)
            return outs
        return [st]

    def ev_match(self, e, st):
        src = e.get("src")
        if src == "try":
            # match Try::branch(x) { Break(r) => return from_residual(r), Continue(v) => v }
            sc = unwrap(e["scrut"])
            inner = sc["args"][0] if sc.get("k") == "call" and sc.get("args") else sc
            outs = []
            for s, v in self.ev(inner, st):
                head = v[1].split("::")[-1] if (isinstance(v, tuple) and v[0] == "ctor") else None
                if head in ("Ok", "Some") and isinstance(v[2], list) and len(v[2]) == 1:
                    outs.append((s, v[2][0]))            # known to be the success side on this path (an inlined helper returned Ok(..))
                    continue
                if head in ("Err", "None"):
                    # known to be the failure side; an inlined helper's own `?` exit is that callee's error, not a new one
                    inner_err = v[2][0] if (head == "Err" and isinstance(v[2], list) and len(v[2]) == 1) else None
                    if is_call_t(inner_err) and inner_err[1] == "<from-err>" and inner_err[2]:
                        self.done.append(Path(s, "try", ("err?", inner_err[2][0])))
                    elif isinstance(inner_err, tuple) and inner_err[0] == "proj" and str(inner_err[2]).startswith("Err."):
                        self.done.append(Path(s, "try", ("err?", inner_err[1])))     # `Err(e) => Err(e)` of x, then `?`: x's own error
                    elif head == "Err" and isinstance(inner_err, tuple) and inner_err[0] in ("ctor", "call"):
                        # an inlined helper *constructed* this error (`return Err(InvalidCollection)`) and the caller's `?` hands it on:
                        # the same exit as the `return Err(..)` written in the caller
                        self.done.append(Path(s, "return", v))
                    else:
                        self.done.append(Path(s, "try", ("err?", v)))
                    continue
                if is_call_t(v) and v[1] in ("std::result::Result::<T, E>::map", "std::option::Option::<T>::map") and len(v[2]) == 2:
                    # `x.map(f)?` is `f(x?)`
                    x, f = v[2]
                    s_ok = s.cond(("if", ("call", "<is_err>", [x], e), False))
                    applied = self.apply_fn(f, [("ok?", x)], s_ok, e)
                    if applied is not None:
                        self.done.append(Path(s.cond(("if", ("call", "<is_err>", [x], e), True)), "try", ("err?", x)))
                        outs.extend(applied)
                        continue
                s_err = s.cond(("if", ("call", "<is_err>", [v], e), True))
                self.done.append(Path(s_err, "try", ("err?", v)))
                outs.append((s.cond(("if", ("call", "<is_err>", [v], e), False)), ("ok?", v)))
            self._guard(len(outs))
            return outs
        if src == "await":
            sc = unwrap(e["scrut"])
            inner = sc["args"][0] if sc.get("k") == "call" and sc.get("args") else sc
            return [(s, v[1] if (isinstance(v, tuple) and v[0] == "future") else ("await", v)) for s, v in self.ev(inner, st)]
        if src == "for":
            # match into_iter(ITER) { mut iter => loop { match next(&mut iter) { None => break, Some(PAT) => BODY } } }
            sc = unwrap(e["scrut"])
            it = sc["args"][0] if sc.get("k") == "call" and sc.get("args") else sc
            lp = unwrap(e["arms"][0]["body"])
            inner_match = None
            from .facts import walk
            for n in walk(lp):
                if n.get("k") == "match" and n.get("src") == "for":
                    inner_match = n
                    break
            pat, body = None, None
            if inner_match is not None:
                for arm in inner_match["arms"]:
                    ap = arm["pat"]
                    if ap.get("k") == "ptuplestruct" and (ap.get("path") or "").endswith("Some"):
                        pat, body = ap["pats"][0], arm["body"]
                    elif ap.get("k") == "pstruct" and (ap.get("path") or "").endswith("Some") and ap["fields"]:
                        pat, body = ap["fields"][0]["p"], arm["body"]
            outs = []
            work = [(s_, v_, []) for s_, v_ in self.ev(it, st)]
            pending_tail, mark = None, 0
            while work or pending_tail is not None:
                if pending_tail is not None:
                    # the loop just evaluated was the first part of `a.chain(b)`: run the rest over each of its final states
                    done_, outs = outs[mark:], outs[:mark]
                    work = [(s_, pending_tail[0], pending_tail[1:]) for s_, _v in done_] + work
                    pending_tail = None
                    continue
                s, itv, tail = work.pop(0)
                mark = len(outs)
                if body is None:
                    outs.append((s, ("unit",)))
                    continue
                if is_call_t(itv) and itv[1] == "std::iter::Iterator::chain" and len(itv[2]) == 2:
                    # `for x in a.chain(b) { body }` is `for x in a { body } for x in b { body }`
                    work.insert(0, (s, itv[2][0], [itv[2][1]] + tail))
                    continue
                if tail:
                    pending_tail = tail
                # a loop over a short literal array / tuple of expressions is its body written out once per element
                lit = itv
                while is_call_t(lit) and lit[1].split("::")[-1] in ("into_iter", "iter") and lit[2]:
                    lit = lit[2][0]
                if isinstance(lit, tuple) and lit[0] in ("array", "tuple") and 0 < len(lit[1]) <= 4:
                    states, after = [s], []
                    for el in lit[1]:
                        nxt = []
                        for s_cur in states:
                            sub = self._sub()
                            s_body = s_cur.fork()
                            sub.bind(pat, el, s_body)
                            for bs, _bv in sub.ev(body, s_body):
                                nxt.append(bs)
                            nxt.extend(bs for (_t, bs) in sub.continues)
                            after.extend(bs for (_t, bs, _bv) in sub.breaks)
                            self.done.extend(sub.done)
                        states = nxt
                        self._guard(len(states))
                    outs.extend((x, ("unit",)) for x in states + after)
                    continue
                sub = self._sub()
                s_body = St(env=dict(s.env))
                # `for x in it.filter(p)` is `for x in it { if !p(&x) { continue } .. }`, `.filter_map(f)` a match on f(x), `.map(f)` a let:
                # the loop is recorded over the underlying iterator and the adaptor's test becomes a condition of the body paths
                adaptors, base_it, states, skipped, okd = self._strip_adaptors(sub, itv, s_body, e)
                if adaptors and okd:
                    itv = base_it
                    body_outs = []
                    for st_c, cur in states:
                        sub.bind(pat, cur, st_c)
                        body_outs.extend(sub.ev(body, st_c))
                    sub.continues.extend((None, sk) for sk in skipped)
                else:
                    sub.bind(pat, ("elem", itv), s_body)
                    body_outs = sub.ev(body, s_body)
                body_paths = [Path(bs, "fall", bv) for bs, bv in body_outs]
                body_paths += [Path(bs, "break", bv) for (_t, bs, bv) in sub.breaks]
                body_paths += [Path(bs, "continue", ("unit",)) for (_t, bs) in sub.continues]
                # returns inside the loop body leave the function
                for p in sub.done:
                    sp = St(dict(p.env), s.conds + [("if", ("call", "<in-loop>", [itv], e), True)] + p.conds, s.trace + p.trace)
                    self.done.append(Path(sp, p.kind, p.ret))
                s2 = s.fork()
                node = {"paths": body_paths, "ln": e.get("ln"), "pat": pat}
                s2.log(("call", "<for>", [itv, ("lit", show(pat))], node))
                self._phi(s2, s.env, body_paths, node)
                self._collect_loop(s2, s.env, body_paths, itv, e)
                outs.append((s2, ("unit",)))
            return outs
        tm = self.ev_tuple_match(e, st)
        if tm is not None:
            return tm
        outs = []
        for s, v in self.ev(e["scrut"], st):
            lazy = self._match_on_map(e, s, v)
            if lazy is not None:
                outs.extend(lazy)
                continue
            if len(e["arms"]) == 2 and not any("guard" in a for a in e["arms"]) and isinstance(v, tuple) and v[0] in ("call", "ok?", "await"):
                a0, a1 = e["arms"][0]["pat"], e["arms"][1]["pat"]
                if a0.get("k") == "pexpr" and a0.get("path") and isinstance(a0.get("e"), dict) and a0["e"].get("k") == "path" and str(a0.get("ty", "")).startswith("ipp::") and \
                        a1.get("k") == "wild":
                    # `match f(x) { Enum::A => a, _ => b }` on a computed crate enum is `if f(x) == Enum::A { a } else { b }`
                    test = ("bin", "Eq", v, ("ctor", a0["path"], []))
                    outs.extend(self.ev(e["arms"][0]["body"], s.cond(("if", test, True))))
                    outs.extend(self.ev(e["arms"][1]["body"], s.cond(("if", test, False))))
                    continue
            excluded = set()      # variants wholly matched by earlier unguarded arms
            earlier_nodes = []    # pattern nodes of earlier unguarded arms (for rules that evaluate the arms on concrete values)
            earlier = []          # patterns of earlier *unguarded* arms: reaching a later arm proves these did not match
            earlier_guarded = []  # patterns of earlier guarded arms: a later arm is also reached when one matched and its guard failed
            lit_arms = []         # (literal term) of earlier unguarded literal arms: `match x { 1 => a, _ => b }` is `if x == 1 { a } else { b }`
            arms_ = []
            for arm in e["arms"]:
                ap0 = arm["pat"]
                if ap0.get("k") == "por" and len(ap0["pats"]) <= 4 and any(n.get("k") == "bind" for q in ap0["pats"] for n in walk_pat(q)) and \
                        all(q.get("k") in ("pstruct", "ptuplestruct") and q.get("path") for q in ap0["pats"]):
                    # `A { x: ref c } | B { y: ref c } => body` binds c differently per alternative: the arm is written out once per alternative
                    for q in ap0["pats"]:
                        arms_.append(dict(arm, pat=q))
                else:
                    arms_.append(arm)
            for i, arm in enumerate(arms_):
                pr = show(arm["pat"])
                ap = arm["pat"]
                litv = None
                if ap.get("k") == "pexpr" and isinstance(ap.get("e"), dict) and ap["e"].get("k") == "lit" and isinstance(ap["e"].get("v"), (int, bool)) and not ap["e"].get("neg"):
                    litv = ("lit", ap["e"]["v"])
                elif ap.get("k") == "pexpr" and isinstance(ap.get("e"), dict) and ap["e"].get("k") == "path" and \
                        str(ap.get("ty")) in ("u8", "u16", "u32", "u64", "usize", "i8", "i16", "i32", "i64", "isize", "char") and ap["e"].get("res", {}).get("r") == "def":
                    # a named integer constant as a pattern: `match tag { BEG_COLLECTION => .. }` is `if tag == BEG_COLLECTION { .. }`
                    cv = self.ev(ap["e"], s)
                    if len(cv) == 1:
                        litv = cv[0][1]
                if litv is not None and "guard" not in arm and isinstance(v, tuple) and v[0] in ("call", "cast", "var", "field", "bin", "ok?", "un", "await"):
                    s_i = s
                    if isinstance(litv[1], bool):
                        # `match b { true => .., false => .. }` is `if b { .. } else { .. }`
                        if any(lj[1] == litv[1] for lj in lit_arms):
                            continue
                        s_i = s_i.cond(("if", v, litv[1]))
                        outs.extend(self.ev(arm["body"], s_i))
                        lit_arms.append(litv)
                        earlier.append(pr)
                        self._guard(len(outs))
                        continue
                    for lj in lit_arms:
                        s_i = s_i.cond(("if", ("bin", "Eq", v, lj), False))
                    s_i = s_i.cond(("if", ("bin", "Eq", v, litv), True))
                    outs.extend(self.ev(arm["body"], s_i))
                    lit_arms.append(litv)
                    earlier.append(pr)
                    self._guard(len(outs))
                    continue
                s_i = s
                if lit_arms and ap.get("k") in ("wild", "bind"):
                    if all(isinstance(lj[1], bool) for lj in lit_arms):
                        if len({lj[1] for lj in lit_arms}) == 2:
                            continue        # both truth values already taken
                        s_i = s_i.cond(("if", v, not lit_arms[0][1]))
                    else:
                        for lj in lit_arms:
                            s_i = s_i.cond(("if", ("bin", "Eq", v, lj), False))
                vs = pat_variant_set(ap)
                known = v[1].split("::")[-1] if (isinstance(v, tuple) and v[0] == "ctor" and v[1].split("::")[-1] in ("Some", "None", "Ok", "Err")) else None
                if known is None and isinstance(v, tuple) and v[0] == "ctor" and vs is not None and vs[0] != "*" and v[1].startswith("ipp::") and all(q.startswith("ipp::") for q in vs[0]) and \
                        v[1].rsplit("::", 1)[0] == sorted(vs[0])[0].rsplit("::", 1)[0]:
                    known = v[1].split("::")[-1]        # a crate enum whose variant is known on this path (an inlined classifier returned it)
                if known is not None and vs is not None and vs[0] != "*" and known not in {q.split("::")[-1] for q in vs[0]}:
                    (earlier_guarded if "guard" in arm else earlier).append(pr)
                    continue        # the value's constructor is known on this path (an inlined helper returned it): this arm cannot match
                poss = None
                if vs is not None:
                    poss = ("notin", frozenset(excluded)) if vs[0] == "*" else ("in", frozenset(vs[0] - excluded))
                    if "guard" not in arm and vs[1] and vs[0] != "*":
                        excluded |= vs[0]
                if poss is not None and not feasible_variants(s.conds, v, poss):
                    (earlier_guarded if "guard" in arm else earlier).append(pr)
                    continue        # an earlier test of the same value on this path (an inlined helper's match) already excludes this arm
                if not (known is not None and vs is not None and vs[0] != "*" and vs[1]):       # (a known constructor matched by its own pattern is no test)
                    s_i = s_i.cond(("match", v, pr, i, arm["pat"], earlier[:], earlier_guarded[:], poss, earlier_nodes[:]))
                self.bind(arm["pat"], v, s_i)
                if "guard" in arm:
                    gs = self.ev(arm["guard"], s_i)
                    for s_g, g in gs:
                        pol_g = True
                        while isinstance(g, tuple) and g[0] == "un" and g[1] == "Not":
                            g, pol_g = g[2], not pol_g
                        outs.extend(self.ev(arm["body"], s_g.cond(("guard", g, pol_g))))
                    if len(gs) == 1 and (ap.get("k") == "wild" or (ap.get("k") == "bind" and "sub" not in ap)):
                        # `x if g(x) => a, _ => b`: the later arms are reached exactly when the guard of this catch-all arm failed
                        g0, pol0 = gs[0][1], True
                        while isinstance(g0, tuple) and g0[0] == "un" and g0[1] == "Not":
                            g0, pol0 = g0[2], not pol0
                        s = s.cond(("guard", g0, not pol0))
                else:
                    outs.extend(self.ev(arm["body"], s_i))
                (earlier_guarded if "guard" in arm else earlier).append(pr)
                if "guard" not in arm:
                    earlier_nodes.append(arm["pat"])
                self._guard(len(outs))
                if known is not None and vs is not None and vs[0] != "*" and vs[1] and "guard" not in arm:
                    break           # .. and this arm always does: later arms are unreachable
        return outs

    def _peel_maps(self, v):
        """`x.map(f).map(g)` -> (x, [f, g], kind of the outermost map call)."""
        fs, kind = [], None
        while is_call_t(v) and v[1] in ("std::option::Option::<T>::map", "std::result::Result::<T, E>::map") and len(v[2]) == 2 and \
                isinstance(v[2][1], tuple) and v[2][1][0] in ("closure", "def", "ctor"):
            kind = kind or v[1]
            fs.insert(0, v[2][1])
            v = v[2][0]
        return v, fs

    def _apply_chain(self, fs, val, s, e):
        states = [(s, val)]
        for f in fs:
            nxt = []
            for s_c, v_c in states:
                r = self.apply_fn(f, [v_c], s_c, e)
                if r is None:
                    return None
                nxt.extend(r)
            states = nxt
        return states

    def _match_on_map(self, e, s, v):
        """`match x.map(f) { Some(y) => A, None => B }` is `match x { Some(v) => { let y = f(v); A }, None => B }` (two plain arms only)."""
        if not (is_call_t(v) and v[1] in ("std::option::Option::<T>::map", "std::result::Result::<T, E>::map") and len(v[2]) == 2 and
                isinstance(v[2][1], tuple) and v[2][1][0] in ("closure", "def", "ctor")) or len(e["arms"]) != 2 or any("guard" in a for a in e["arms"]):
            return None
        yes = no = None
        for a in e["arms"]:
            ap = a["pat"]
            while ap.get("k") in ("pref", "pderef"):
                ap = ap["p"]
            if ap.get("k") == "ptuplestruct" and (ap.get("path") or "").split("::")[-1] in ("Some", "Ok") and len(ap["pats"]) == 1 and yes is None:
                yes = (a, ap)
            elif ap.get("k") in ("wild",) or (ap.get("k") == "pexpr" and (ap.get("path") or "").split("::")[-1] == "None") or \
                    (ap.get("k") == "ptuplestruct" and (ap.get("path") or "").split("::")[-1] == "Err" and len(ap["pats"]) == 1 and ap["pats"][0].get("k") == "wild"):
                no = (a, ap)
        if yes is None or no is None:
            return None
        x, fs = self._peel_maps(v)
        good = (yes[1].get("path") or "").split("::")[-1]
        pr = show(yes[1])
        s_t = s.cond(("match", x, pr, True, yes[1]))
        applied = self._apply_chain(fs, ("proj", x, good + ".0"), s_t, e)
        if applied is None:
            return None
        outs = []
        for s2, val in applied:
            self.bind(yes[1]["pats"][0], val, s2)
            outs.extend(self.ev(yes[0]["body"], s2))
        outs.extend(self.ev(no[0]["body"], s.cond(("match", x, "!" + pr, False, yes[1]))))
        return outs

    def ev_tuple_match(self, e, st):
        """`match (a, b) { (P, 4) => x, (Q, _) => y, _ => z }`: each arm is the conjunction of its component tests - a variant pattern is a
        match condition on that component, a literal an equality test, `_` nothing - so the arm reads like `P if b == 4 => x`."""
        sc = unwrap(e["scrut"])
        if sc.get("k") != "tup" or not (2 <= len(sc.get("es", [])) <= 3):
            return None
        n = len(sc["es"])

        def comps(pat):
            while pat.get("k") in ("pref", "pderef"):
                pat = pat["p"]
            if pat.get("k") == "ptuple" and len(pat["pats"]) == n:
                return pat["pats"]
            if pat.get("k") == "wild":
                return [pat] * n
            return None
        if any(comps(a["pat"]) is None for a in e["arms"]):
            return None
        outs = []
        for s, vals in self.seq(sc["es"], st):
            excluded = [set() for _ in range(n)]
            for i, arm in enumerate(e["arms"]):
                qs = comps(arm["pat"])
                s_i, feasible, total_all, tests = s, True, True, []
                for j, q in enumerate(qs):
                    qq = q
                    while qq.get("k") in ("pref", "pderef"):
                        qq = qq["p"]
                    if qq.get("k") == "wild" or (qq.get("k") == "bind" and "sub" not in qq):
                        tests.append(None)
                        continue
                    if qq.get("k") == "pexpr" and isinstance(qq.get("e"), dict) and qq["e"].get("k") == "lit" and isinstance(qq["e"].get("v"), (int, bool)) and not qq["e"].get("neg"):
                        lv = qq["e"]["v"]
                        s_i = s_i.cond(("if", vals[j], lv) if isinstance(lv, bool) else ("if", ("bin", "Eq", vals[j], ("lit", lv)), True))
                        tests.append("lit")
                        total_all = False
                        continue
                    vs = pat_variant_set(qq)
                    if vs is None or vs[0] == "*":
                        return None         # a component pattern this reading does not cover: fall back to the opaque tuple match
                    poss = ("in", frozenset(vs[0] - excluded[j]))
                    if not feasible_variants(s_i.conds, vals[j], poss):
                        feasible = False
                        break
                    s_i = s_i.cond(("match", vals[j], show(qq), i, qq, [], [], poss))
                    tests.append((vs, j))
                    if not vs[1]:
                        total_all = False
                if not feasible:
                    continue
                if all(t is None for t in tests):
                    # the catch-all arm: whatever the enum components have not been matched as so far
                    for j in range(n):
                        if excluded[j] or any(isinstance(c, tuple) and c[0] == "match" and c[1] is vals[j] for c in s.conds):
                            poss = ("notin", frozenset(excluded[j]))
                            if not feasible_variants(s_i.conds, vals[j], poss):
                                feasible = False
                                break
                            s_i = s_i.cond(("match", vals[j], "_", i, {"k": "wild"}, [], [], poss))
                    if not feasible:
                        continue
                for j, q in enumerate(qs):
                    self.bind(q, vals[j], s_i)
                if "guard" in arm:
                    for s_g, g in self.ev(arm["guard"], s_i):
                        outs.extend(self.ev(arm["body"], s_g.cond(("guard", g, True))))
                else:
                    outs.extend(self.ev(arm["body"], s_i))
                    # this arm takes every value of its variants when all other components are wildcards
                    vt = [t for t in tests if isinstance(t, tuple)]
                    if len(vt) == 1 and all(t is None or t is vt[0] for t in tests) and vt[0][0][1]:
                        excluded[vt[0][1]] |= vt[0][0][0]
                self._guard(len(outs))
        return outs

    def _collect_loop(self, st, entry_env, body_paths, itv, e):
        """`let mut v = Vec::new(); for x in it { v.push(f(x)) }` builds what `it.map(f).collect()` builds: after such a loop the
        vector stands for ('call', '<collect>', [it, f(elem)]) - the elements of `it`, each wrapped by f, in order."""
        if len(body_paths) != 1 or body_paths[0].kind != "fall" or body_paths[0].conds:
            return
        from .terms import subterms
        tr = [t for t in body_paths[0].trace if is_call_t(t)]
        pushes = [t for t in tr if t[1] == "std::vec::Vec::<T, A>::push" and len(t[2]) == 2]
        if len(pushes) != 1:
            return
        recv, item = pushes[0][2]
        if not (is_call_t(recv) and recv[1] in ("std::vec::Vec::<T>::new", "std::vec::Vec::<T>::with_capacity", "std::vec::Vec::<T, A>::new", "std::vec::Vec::<T, A>::with_capacity")):
            return
        inside = {id(x[3]) for x in subterms(item) if is_call_t(x) and len(x) > 3}
        if any(t is not pushes[0] and not (len(t) > 3 and id(t[3]) in inside) for t in tr):
            return          # the body does something else as well
        for k, v in entry_env.items():
            if v is recv:
                st.env[k] = ("call", "<collect>", [itv, item], e)

    def _phi(self, st, entry_env, body_paths, node):
        """Loop-carried assignments: a variable assigned in the body becomes phi(before, [values after one iteration])."""
        changed = {}
        for p in body_paths:
            if p.kind not in ("fall", "continue"):
                continue
            for k, v in p.env.items():
                if k in entry_env and entry_env[k] is not v:
                    changed.setdefault(k, []).append(v)
        for k, news in changed.items():
            st.env[k] = ("phi", entry_env[k], news, id(node))

    def ev_loop(self, e, st):
        sub = self._sub()
        body_outs = sub.ev(e["body"], St(env=dict(st.env)))
        off0 = len(st.conds)
        outs = []
        paths = [Path(bs, "fall", bv) for bs, bv in body_outs] + [Path(bs, "continue", ("unit",)) for (_t, bs) in sub.continues]
        brk = [(bs, bv) for (_t, bs, bv) in sub.breaks]
        node = {"paths": paths, "ln": e.get("ln"), "breaks": [Path(bs, "break", bv) for bs, bv in brk]}
        for p in sub.done:
            # leaving the function from inside the loop (`return`, `?`): the same picture as leaving the loop by `break` and returning after it -
            # the iterations that came before are the loop node, the exit itself is written out
            shifted = [(t[:4] + (t[4] + off0,)) if (len(t) > 4 and isinstance(t[4], int)) else t for t in p.trace]
            sp = St(dict(p.env), st.conds + p.conds, st.trace + [("call", "<loop>", [], node, off0)] + shifted)
            self.done.append(Path(sp, p.kind, p.ret))
        if not brk:
            s2 = st.fork()
            s2.log(("call", "<loop>", [], node))
            # loop without break: diverges (or returns from inside)
            return []
        off = len(st.conds)
        for bs, bv in brk:
            shifted = [(t[:4] + (t[4] + off,)) if (len(t) > 4 and isinstance(t[4], int)) else t for t in bs.trace]
            s2 = St(dict(bs.env), st.conds + bs.conds, st.trace + [("call", "<loop>", [], node, off)] + shifted)
            outs.append((s2, bv))
        return outs


def default_value(ty):
    """`T::default()` for the std types whose default is a fixed, well-known value."""
    if ty == "bool":
        return ("lit", False)
    if ty in ("u8", "u16", "u32", "u64", "u128", "usize", "i8", "i16", "i32", "i64", "i128", "isize"):
        return ("lit", 0)
    if ty.startswith("std::option::Option<"):
        return ("ctor", "std::prelude::v1::None", [])
    if ty == "std::string::String":
        return ("call", "std::string::String::new", [], None)
    if ty.startswith("std::vec::Vec<"):
        return ("call", "std::vec::Vec::<T>::new", [], None)
    if ty.startswith("std::collections::BTreeMap<"):
        return ("call", "std::collections::BTreeMap::<K, V>::new", [], None)
    if ty.startswith("std::collections::HashMap<"):
        return ("call", "std::collections::HashMap::<K, V>::new", [], None)
    return None


def walk_pat(p):
    if isinstance(p, dict):
        yield p
        for v in p.values():
            if isinstance(v, (dict, list)):
                yield from walk_pat(v)
    elif isinstance(p, list):
        for x in p:
            yield from walk_pat(x)


def pat_variant_set(pat):
    """(set of enum variant paths the pattern can match | '*', whether it matches every value of those variants); None = not a variant pattern."""
    while pat and pat.get("k") in ("pref", "pderef", "pguard"):
        pat = pat["p"]
    if not pat:
        return None
    k = pat.get("k")
    if k == "wild" or (k == "bind" and "sub" not in pat):
        return ("*", True)
    if k == "bind":
        return pat_variant_set(pat["sub"])
    if k == "por":
        parts = [pat_variant_set(q) for q in pat["pats"]]
        if any(x is None or x[0] == "*" for x in parts):
            return None
        return (set().union(*[x[0] for x in parts]), all(x[1] for x in parts))
    path = pat.get("path")
    if k == "pexpr" and path and "::" in str(pat.get("ty", "")) and (isinstance(pat.get("e"), dict) and pat["e"].get("k") == "path" or "e" not in pat):
        return ({path}, True)       # a unit variant (the scrutinee is an enum, not a number or a string compared with a named constant)
    if k == "ptuplestruct" and path and not _is_struct_pat(pat):
        subs = [pat_variant_set(q) for q in pat["pats"]]
        return ({path}, all(x is not None and x[0] == "*" for x in subs))
    if k == "pstruct" and path and not _is_struct_pat(pat):
        subs = [pat_variant_set(f["p"]) for f in pat["fields"]]
        return ({path}, all(x is not None and x[0] == "*" for x in subs))
    return None


def _pure(t):
    if not isinstance(t, tuple):
        return True
    if t[0] in ("call", "closure", "phi", "opaque", "elem"):
        return False
    if t[0] in ("var", "lit", "def"):
        return True
    if t[0] in ("field", "proj", "ok?", "await"):
        return _pure(t[1])
    return False


def feasible_variants(conds, v, poss):
    """False when an earlier match of the very same value on this path leaves none of the variants `poss` allows."""
    for c in conds:
        if c[0] != "match" or len(c) < 8 or c[7] is None:
            continue
        if not (c[1] is v or (_pure(v) and _pure(c[1]) and c[1] == v)):
            continue
        a, b = c[7], poss
        if a[0] == "in" and b[0] == "in" and not (a[1] & b[1]):
            return False
        if a[0] == "in" and b[0] == "notin" and a[1] and a[1] <= b[1]:
            return False
        if a[0] == "notin" and b[0] == "in" and b[1] and b[1] <= a[1]:
            return False
        if b[0] == "in" and not b[1]:
            return False
    return True


def async_inner(root):
    """If root is the lowering of an `async fn` body, return the coroutine closure node."""
    n = unwrap(root)
    if isinstance(n, dict) and n.get("k") == "closure" and str(n.get("ckind", "")).startswith("coroutine:Desugared(Async"):
        return n
    return None


def paths_of(body, node=None, inline=None):
    sx = SymX(body, inline=inline)
    return sx.run(node)


def simp(t):
    """Fold a few combinators applied to literal constructors (used after inlining helpers)."""
    if not isinstance(t, tuple):
        return t
    k = t[0]
    if k in ("ok?",):
        x = simp(t[1])
        if x[0] == "ctor" and x[1].split("::")[-1] in ("Some", "Ok") and isinstance(x[2], list) and len(x[2]) == 1:
            return x[2][0]
        return ("ok?", x)
    if k == "un":
        x = simp(t[2])
        if t[1] == "Not" and x[0] == "lit" and isinstance(x[1], bool):
            return ("lit", not x[1])
        if t[1] == "Not" and x[0] == "un" and x[1] == "Not":
            return x[2]
        return ("un", t[1], x)
    if k == "bin":
        a, b = simp(t[2]), simp(t[3])
        # (x + c) - c  ->  x   (the only arithmetic the rules need)
        if t[1] == "Sub" and a[0] == "bin" and a[1] == "Add" and a[3] == b and b[0] == "lit":
            return a[2]
        if a[0] == "lit" and b[0] == "lit" and isinstance(a[1], int) and isinstance(b[1], int) and not isinstance(a[1], bool) and not isinstance(b[1], bool):
            f = {"Add": lambda x, y: x + y, "Sub": lambda x, y: x - y, "Mul": lambda x, y: x * y, "Shl": lambda x, y: x << y if 0 <= y < 64 else None,
                 "Shr": lambda x, y: x >> y if 0 <= y < 64 else None, "BitOr": lambda x, y: x | y, "BitAnd": lambda x, y: x & y, "BitXor": lambda x, y: x ^ y}.get(t[1])
            v = f(a[1], b[1]) if f else None
            if v is not None and 0 <= v < (1 << 64):
                return ("lit", v)           # constant arithmetic (`(major << 8) | minor` of literals)
        return ("bin", t[1], a, b)
    if k == "cast":
        x = simp(t[2])
        bits = {"u8": 8, "u16": 16, "u32": 32, "u64": 64, "usize": 64}.get(str(t[1]))
        if x[0] == "lit" and isinstance(x[1], int) and not isinstance(x[1], bool) and bits and 0 <= x[1] < (1 << bits):
            return x                        # a literal that fits is unchanged by the widening / same-width cast
        return ("cast", t[1], x)
    if k in ("array", "tuple"):
        return (k, [simp(v) for v in t[1]])
    if k == "index":
        return ("index", simp(t[1]), simp(t[2]))
    if k == "ctor":
        if isinstance(t[2], dict):
            return ("ctor", t[1], {n: simp(v) for n, v in t[2].items()})
        return ("ctor", t[1], [simp(v) for v in t[2]])
    if k == "call":
        args = [simp(a) for a in t[2]]
        name = t[1]
        if name in ("std::option::Option::<T>::unwrap_or", "std::result::Result::<T, E>::unwrap_or") and len(args) == 2 and args[0][0] == "ctor":
            v = args[0][1].split("::")[-1]
            if v in ("Some", "Ok") and args[0][2]:
                return args[0][2][0]
            if v in ("None", "Err"):
                return args[1]
        m = re.match(r"^core::num::<impl (u16|u32|u64)>::from_(be|le)_bytes$", str(name))
        if m and len(args) == 1 and args[0][0] in ("array", "tuple") and all(x[0] == "lit" and isinstance(x[1], int) and 0 <= x[1] < 256 for x in args[0][1]) and \
                len(args[0][1]) == {"u16": 2, "u32": 4, "u64": 8}[m.group(1)]:
            return ("lit", int.from_bytes(bytes(x[1] for x in args[0][1]), "big" if m.group(2) == "be" else "little"))
        if name == "std::option::Option::<T>::unwrap_or_default" and args and args[0][0] == "ctor":
            v = args[0][1].split("::")[-1]
            if v == "Some" and args[0][2]:
                return args[0][2][0]
        return ("call", name, args) + tuple(t[3:])
    return t


def closure_paths(body, closure_term, arg_terms=None):
    """Evaluate a closure term's body with its parameters bound to arg_terms (or fresh vars)."""
    node = closure_term[1]
    env = closure_term[2] if len(closure_term) > 2 else {}
    sx = SymX(body)
    st = St(env=dict(env))
    for i, p in enumerate(node.get("params", [])):
        sx.bind(p, (arg_terms[i] if arg_terms and i < len(arg_terms) else None), st)
    outs = sx.ev(node["body"], st)
    return [Path(s, "fall", v) for s, v in outs] + sx.done


def all_calls(path, prefix=None):
    """Every call term on a path, including those inside loop bodies, with the conditions in force."""
    base = list(prefix or [])
    for t in path.trace:
        if not (isinstance(t, tuple) and t[0] == "call"):
            continue
        n = t[4] if len(t) > 4 and isinstance(t[4], int) else len(path.conds)
        conds = base + list(path.conds[:n])
        yield t, conds
        if t[1] in ("<for>", "<loop>") and isinstance(t[3], dict):
            for bp in list(t[3].get("paths", [])) + list(t[3].get("breaks", [])):
                yield from all_calls(bp, conds)
