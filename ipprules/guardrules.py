"""C02 machinery: call graph / cones, R-GUARD (path replay against T-PANIC), R-DEPTH, R-NOREC, R-LOOP."""
import os
import re

from .engine import VERIF, load_json
from .facts import callee, show, site, unwrap, walk
from .symx import TooManyPaths, all_calls, cshow, paths_of, simp, tshow
from .terms import is_call, mentions, same, subterms

PARSE_ROOTS = ["ipp::parser::IppParser::<R>::parse", "ipp::parser::IppParser::<R>::parse_parts", "ipp::parser::AsyncIppParser::<R>::parse",
               "ipp::parser::AsyncIppParser::<R>::parse_parts", "ipp::value::IppValue::parse"]
INSPECT_ROOTS = ["<ipp::value::IppValue as std::fmt::Display>::fmt", "ipp::value::IppValue::to_bytes", "ipp::value::IppValue::to_tag",
                 "ipp::attribute::IppAttribute::to_bytes", "ipp::attribute::IppAttributes::to_bytes", "ipp::IppHeader::to_bytes",
                 "ipp::request::IppRequestResponse::to_bytes", "<&'a ipp::value::IppValue as std::iter::IntoIterator>::into_iter",
                 "<ipp::value::IppValueIterator<'a> as std::iter::Iterator>::next"]


def call_graph(F):
    g = {}
    # crate-local iterator types: whoever builds one hands it to a library adaptor (any, map, for ...) that calls its next()
    iter_next = {}
    for imp in F.impls:
        if imp.get("trait") in ("std::iter::Iterator", "core::iter::Iterator") and imp.get("self_adt"):
            for p in F.hir:
                if p.startswith("<" + imp["self"].split("<")[0]) and p.endswith("as std::iter::Iterator>::next") or \
                        (p.endswith("as std::iter::Iterator>::next") and imp["self_adt"] in p):
                    iter_next[imp["self_adt"]] = p
    for path, body in F.hir.items():
        if body["kind"] not in ("Fn", "AssocFn"):
            continue
        outs = set()
        for n in walk(body["body"]):
            if n.get("k") == "struct" and n.get("path") in iter_next:
                outs.add(iter_next[n["path"]])
            if n.get("k") == "mcall":
                for c in (n.get("resolved"), n.get("callee")):
                    if c in F.hir:
                        outs.add(c)
            elif n.get("k") == "call":
                res = n["f"].get("res", {}) if isinstance(n.get("f"), dict) else {}
                for c in (res.get("resolved"), n.get("callee")):
                    if c in F.hir:
                        outs.add(c)
                cal = n.get("callee") or ""
                # formatting: Argument::new_display::<T>(&x) calls <T as Display>::fmt
                if cal.startswith("core::fmt::rt::Argument::<'_>::new_"):
                    kind = cal.split("new_")[-1]
                    trait = {"display": "std::fmt::Display", "debug": "std::fmt::Debug", "lower_hex": "std::fmt::LowerHex", "upper_hex": "std::fmt::UpperHex"}.get(kind)
                    for a in res.get("args", []):
                        a = a.lstrip("&")
                        cand = "<%s as %s>::fmt" % (a, trait)
                        if cand in F.hir:
                            outs.add(cand)
        g[path] = outs
    return g


def standalone(F, fn):
    """Path-based rules analyse a function on its own only if it is a reviewed one: a helper introduced later is inlined into its callers
    by the path builder and judged there, with the guards / popped state / bounds its callers establish."""
    from .symx import known_functions
    b = F.hir.get(fn)
    return fn in known_functions() or b is None or b.get("kind") not in ("Fn", "AssocFn")


def cone(g, roots):
    seen, todo = set(), [r for r in roots if r in g]
    while todo:
        x = todo.pop()
        if x in seen:
            continue
        seen.add(x)
        todo.extend(g.get(x, ()))
    return seen


def cycles(g, nodes):
    """Strongly connected components with a cycle, restricted to `nodes`."""
    index, low, onstack, stack, out = {}, {}, set(), [], []
    counter = [0]

    def strong(v):
        index[v] = low[v] = counter[0]
        counter[0] += 1
        stack.append(v)
        onstack.add(v)
        for w in g.get(v, ()):
            if w not in nodes:
                continue
            if w not in index:
                strong(w)
                low[v] = min(low[v], low[w])
            elif w in onstack:
                low[v] = min(low[v], index[w])
        if low[v] == index[v]:
            comp = []
            while True:
                w = stack.pop()
                onstack.discard(w)
                comp.append(w)
                if w == v:
                    break
            if len(comp) > 1 or v in g.get(v, ()):
                out.append(comp)
    import sys
    sys.setrecursionlimit(10000)
    for v in nodes:
        if v not in index:
            strong(v)
    return out


# ---------------------------------------------------------------------------------------------
LEN_Q = ("bytes::Bytes::len", "bytes::Buf::remaining", "std::vec::Vec::<T, A>::len", "core::slice::<impl [T]>::len", "std::string::String::len",
         "core::str::<impl str>::len", "std::collections::VecDeque::<T, A>::len")
EMPTY_Q = ("bytes::Bytes::is_empty", "std::vec::Vec::<T, A>::is_empty", "core::slice::<impl [T]>::is_empty")


def strip(t):
    # `x as usize`, `usize::from(x)`, `x.into()` on integers: the same number
    while isinstance(t, tuple) and (t[0] == "cast" or (is_call(t) and t[1] in ("std::convert::From::from", "std::convert::Into::into") and len(t[2]) == 1 and
                                                      ((t[3].get("ty") if len(t) > 3 and isinstance(t[3], dict) else "") or "") in
                                                      ("u8", "u16", "u32", "u64", "usize", "i8", "i16", "i32", "i64", "isize"))):
        t = t[2] if t[0] == "cast" else t[2][0]
    return t


def key(t):
    return tshow(strip(t))


class Facts_:
    def __init__(self):
        self.lb = {}        # key(container) -> (const lower bound on len/remaining, set of symbolic lower bounds)
        self.some = set()   # keys of terms known Some / Ok
        self.lt = set()     # (key(a), key(b)) known a < b
        self.ge = set()     # (key(a), key(b)) known a >= b
        self.gt0 = set()    # key(a) known a > 0
        self.boundary = set()  # (key(text), key(offset)) known is_char_boundary
        self.tight = {}     # key(buffer) -> [bytes demanded by an inequality guard and not yet read, guard text]
        # staleness of length observations: a `len()` / `remaining()` call is an observation made when it is *evaluated*
        # (its position in the trace), not when a condition later mentions its let-bound result
        self.ver = {}       # key(container) -> (bytes consumed by fixed-size reads so far, epoch bumped by any other mutation)
        self.obs = {}       # id(length-query term) -> version of its container when the call was evaluated

    def version(self, k):
        return self.ver.get(k, (0, 0))

    def consume(self, k, n):
        c, e = self.version(k)
        self.ver[k] = (c + n, e)

    def mutate(self, k):
        """Unknown change of container k: every bound and every order fact about its length is dropped."""
        c, e = self.version(k)
        self.ver[k] = (c, e + 1)
        if k in self.lb:
            self.lb[k] = (0, set())
        tag = "(%s)" % k
        self.lt = {(a, b) for a, b in self.lt if not (a.endswith(tag) or b.endswith(tag))}
        self.ge = {(a, b) for a, b in self.ge if not (a.endswith(tag) or b.endswith(tag))}

    @staticmethod
    def _oid(t):
        # the trace entry and the term in a condition are different tuples around the same HIR call node
        return id(t[3]) if len(t) > 3 and isinstance(t[3], dict) else id(t)

    def observe(self, t):
        self.obs[self._oid(t)] = self.version(key(t[2][0]))

    def staleness(self, x):
        """(bytes consumed since the observation | None if the container changed in an unknown way) for a length-query term."""
        o = self.obs.get(self._oid(x))
        if o is None:
            return 0
        c, e = self.version(key(x[2][0]))
        return None if e != o[1] else c - o[0]

    def any_stale(self, t):
        return any(is_call(x) and x[1] in LEN_Q and self.staleness(x) != 0 for x in subterms(t))

    def bound(self, k):
        return self.lb.get(k, (0, set()))

    def raise_to(self, k, c=0, sym=None):
        c0, s0 = self.bound(k)
        s = set(s0)
        if sym is not None:
            s.add(sym)
        self.lb[k] = (max(c0, c), s)


def apply_cond(fx, c):
    kind = c[0]
    if kind in ("if", "guard"):
        t, pol = c[1], c[2]
        while isinstance(t, tuple) and t[0] == "un" and t[1] == "Not":
            t, pol = t[2], not pol
        if is_call(t) and t[1] in EMPTY_Q and not pol:
            fx.raise_to(key(t[2][0]), 1)
            return
        if is_call(t, "bytes::Buf::has_remaining") and pol:
            fx.raise_to(key(t[2][0]), 1)
            return
        if is_call(t) and t[1].endswith("::is_char_boundary") and pol and len(t[2]) == 2:
            fx.boundary.add((key(t[2][0]), key(t[2][1])))
            return
        if is_call(t) and t[1].endswith(("::is_some", "::is_ok")) and pol:
            fx.some.add(key(t[2][0]))
            return
        if is_call(t) and t[1].endswith(("::is_none", "::is_err")) and not pol:
            fx.some.add(key(t[2][0]))
            return
        if is_call(t, "<is_err>") and not pol:
            fx.some.add(key(t[2][0]))
            return
        if isinstance(t, tuple) and t[0] == "bin" and t[1] in ("Eq", "Ne", "Lt", "Le", "Gt", "Ge"):
            op, a, b = t[1], strip(t[2]), strip(t[3])
            flip = {"Lt": "Gt", "Le": "Ge", "Gt": "Lt", "Ge": "Le", "Eq": "Eq", "Ne": "Ne"}
            def fresh_len(x):
                # `observed - k` (or a cast of it) where exactly k bytes were read since the observation is the current length
                if isinstance(x, tuple) and x[0] == "bin" and x[1] == "Sub":
                    l, r = strip(x[2]), strip(x[3])
                    if is_call(l) and l[1] in LEN_Q and r[0] == "lit" and isinstance(r[1], int) and fx.staleness(l) == r[1] and r[1] > 0:
                        return ("call", l[1], l[2])     # a fresh observation of the same container (no node: not in fx.obs)
                return x
            a, b = fresh_len(a), fresh_len(b)
            for (x, y, o) in ((a, b, op), (b, a, flip[op])):
                # x is a length query on container K:  len(K) o y
                if is_call(x) and x[1] in LEN_Q:
                    K = key(x[2][0])
                    used = fx.staleness(x)    # bytes read from K between the observation and this test
                    if used is None:
                        continue              # the container changed since it was measured: the test says nothing about it now
                    lower = None          # len >= y (+1)
                    if (o == "Eq" and pol) or (o == "Ne" and not pol) or (o == "Ge" and pol) or (o == "Lt" and not pol):
                        lower = 0
                    elif (o == "Gt" and pol) or (o == "Le" and not pol):
                        lower = 1
                    if lower is not None:
                        if y[0] == "lit" and isinstance(y[1], int):
                            fx.raise_to(K, max(y[1] + lower - used, 0))
                            if o not in ("Eq", "Ne") and x[1] in ("bytes::Buf::remaining", "bytes::Bytes::len") and used == 0:
                                # an inequality guard on a wire buffer demands this many bytes: the reads that follow should need them
                                fx.tight[K] = [y[1] + lower, "%s %s %d is %s" % (x[1].split("::")[-1], o, y[1], pol)]
                        elif used == 0:
                            fx.raise_to(K, 0, key(y))
                        # else: a stale observation compared with a symbolic size proves nothing about what is left now
            # generic order facts (not from stale length observations)
            if fx.any_stale(a) or fx.any_stale(b):
                return
            ka, kb = key(a), key(b)
            if (op == "Lt" and pol) or (op == "Ge" and not pol):
                fx.lt.add((ka, kb))
            if (op == "Gt" and pol) or (op == "Le" and not pol):
                fx.lt.add((kb, ka))
            if (op == "Ge" and pol) or (op == "Lt" and not pol) or (op == "Eq" and pol):
                fx.ge.add((ka, kb))
            if (op == "Le" and pol) or (op == "Gt" and not pol) or (op == "Eq" and pol):
                fx.ge.add((kb, ka))
            if b == ("lit", 0) and ((op in ("Gt", "Ne") and pol) or (op in ("Le", "Eq") and not pol)):
                fx.gt0.add(ka)
        return
    if kind == "match":
        t = c[1]
        pat = c[2]
        positive = c[3] is not False and not pat.startswith("!")
        if positive and ("Some(" in pat or "::Ok(" in pat or pat.endswith("Some") or "Some{" in pat or "Ok{" in pat):
            fx.some.add(key(t))
        if is_call(t) and t[1] in LEN_Q and positive and pat.strip().isdigit():
            fx.raise_to(key(t[2][0]), int(pat.strip()))
        if positive and is_call(t, "core::slice::<impl [T]>::get") and len(t[2]) == 2 and isinstance(t[2][1], tuple) and t[2][1][0] == "ctor" and \
                str(t[2][1][1]).endswith("RangeTo") and isinstance(t[2][1][2], dict) and "end" in t[2][1][2] and ("Some(" in pat or pat.endswith("Some")):
            # `data.get(..n)` is Some exactly when n <= data.len(): the checked form of the bounds test
            fx.raise_to(key(t[2][0]), 0, key(strip(t[2][1][2]["end"])))


def replay(run, F, body, p, T, counts):
    """Replay one path; record an obligation for every panic-capable operation."""
    fx = Facts_()
    ci = 0
    fn = body["def"]
    short = fn.split("::", 1)[-1]
    ordinal = {}

    def ob(kind, what, ok, detail, node):
        n = ordinal.get((kind, what), 0)
        ordinal[(kind, what)] = n + 1
        counts[kind] = counts.get(kind, 0) + 1
        run.ob("R-GUARD", "%s: %s #%d" % (short, what, n), ok, detail, site(body, node), key="R-GUARD|%s|%s|%d" % (fn, what, n))

    def settle(K, where, node=None):
        # the guard asked for more bytes than the fixed-size reads after it consume: a value that is exactly long enough is refused
        if K in fx.tight:
            left, text = fx.tight.pop(K)
            ob("tight-guard", "length guard of %s is exact" % K[:30], left <= 0,
               "the guard `%s` demands %d byte(s) more than the fixed-size reads that follow it consume before %s: a well-formed value that is exactly long "
               "enough is rejected" % (text, left, where), node)

    for t in p.trace:
        if not is_call(t):
            continue
        stamp = t[4] if len(t) > 4 and isinstance(t[4], int) else len(p.conds)
        while ci < min(stamp, len(p.conds)):
            before = dict((k2, v2[0]) for k2, v2 in fx.tight.items())
            c_ = p.conds[ci]
            # a new test of a buffer settles the previous guard on it
            for K_ in list(fx.tight):
                if any(is_call(x) and x[1] in LEN_Q and key(x[2][0]) == K_ for x in subterms(c_[1]) ) if isinstance(c_[1], tuple) else False:
                    settle(K_, "the next length test")
            apply_cond(fx, c_)
            ci += 1
        name, args = t[1], t[2]
        node = t[3] if len(t) > 3 else None
        pc = " && ".join(cshow(c) for c in p.conds[:ci])[-260:]
        if name in LEN_Q and args:
            fx.observe(t)
            continue
        if name in T["buf_fixed"]:
            K = key(args[0])
            need = T["buf_fixed"][name]
            c0, s0 = fx.bound(K)
            ob("buffer-read", name.split("::")[-1], c0 >= need,
               "%s needs %d byte(s) of %s but only >= %d are established on this path [%s] (a shorter value panics inside `bytes`)" % (name, need, K, c0, pc), node)
            fx.lb[K] = (max(c0 - need, 0), set())
            fx.consume(K, need)
            if K in fx.tight:
                fx.tight[K][0] -= need
            continue
        if name in T["buf_sym"]:
            K = key(args[0])
            idx = T["buf_sym"][name]
            v = strip(args[idx]) if idx is not None and idx < len(args) else None
            c0, s0 = fx.bound(K)
            ok = v is not None and ((v[0] == "lit" and isinstance(v[1], int) and v[1] <= c0) or key(v) in s0)
            ob("buffer-advance", name.split("::")[-1], ok,
               "%s(%s) needs remaining(%s) >= %s; established: >= %d and >= %s [%s]" % (name, tshow(v)[:40], K, tshow(v)[:40], c0, sorted(s0), pc), node)
            settle(K, "a variable-length read", node)
            fx.mutate(K)
            continue
        if name == "<index>":
            base, idx = args[0], simp(args[1])
            K = key(base)
            c0, s0 = fx.bound(K)
            if idx[0] == "ctor" and "Range" in idx[1]:
                f = idx[2] if isinstance(idx[2], dict) else {}
                ok = True
                why = []
                for bnd in ("start", "end"):
                    if bnd in f:
                        v = strip(f[bnd])
                        good = (v[0] == "lit" and isinstance(v[1], int) and v[1] <= c0) or key(v) in s0
                        ok = ok and good
                        why.append("%s=%s" % (bnd, tshow(v)[:40]))
                ob("slice", "slice of %s" % K[:30], ok, "range %s of %s is not shown to lie within its length (established: >= %d and >= %s) [%s]" % (
                    ", ".join(why), K, c0, sorted(s0), pc), node)
                # text: a byte offset inside a multi-byte character panics as well (decoded text is attacker-chosen, U+FFFD is 3 bytes)
                bty = (((node or {}).get("b") or {}).get("ty") or "").replace("&mut ", "").replace("&", "").strip()
                if bty in ("str", "std::string::String") or bty.startswith("std::borrow::Cow<'_, str"):
                    for bnd in ("start", "end"):
                        if bnd not in f:
                            continue
                        v = strip(f[bnd])
                        kv = key(v)
                        fine = (v[0] == "lit" and v[1] == 0) or (is_call(v) and v[1] in LEN_Q and key(v[2][0]) == K) or (K, kv) in fx.boundary or \
                            (is_call(v) and v[1].split("::")[-1] in ("len_utf8", "floor_char_boundary", "ceil_char_boundary")) or \
                            any(is_call(x) and x[1].split("::")[-1] in ("find", "rfind", "char_indices", "floor_char_boundary", "ceil_char_boundary", "position", "len") for x in subterms(v))
                        ob("char-boundary", "text slice of %s at %s" % (K[:30], bnd), fine,
                           "%s of the byte range into text %s is %s: not known to fall on a character boundary (accepted: 0, len(), a guard `is_char_boundary`, an offset "
                           "obtained from find / char_indices / floor_char_boundary); slicing inside a multi-byte character panics [%s]" % (bnd, K, tshow(v)[:40], pc), node)
            else:
                k_i = key(idx)
                ok = (idx[0] == "lit" and isinstance(idx[1], int) and idx[1] < c0) or any(a == k_i and b.endswith("(%s)" % K) for a, b in fx.lt)
                # fixed-size arrays: the length is in the type
                bty = ((node or {}).get("b") or {}).get("ty") or ""
                m = re.match(r"^\[.*; (\d+)\]$", bty)
                if m and idx[0] == "lit" and isinstance(idx[1], int) and idx[1] < int(m.group(1)):
                    ok = True
                ob("index", "index into %s" % K[:30], ok, "index %s into %s is not shown to be < its length [%s]" % (tshow(idx)[:40], K, pc), node)
            continue
        if name.split("::")[-1] in ("drain", "split_at", "split_at_mut", "copy_within", "rotate_left", "rotate_right") and name.startswith(("std::vec::Vec::", "core::slice::", "std::collections::VecDeque::", "std::string::String::")) and len(args) > 1:
            K = key(args[0])
            c0, s0 = fx.bound(K)
            a1 = simp(args[1])
            bounds = []
            if a1[0] == "ctor" and "Range" in a1[1] and isinstance(a1[2], dict):
                bounds = [strip(a1[2][b]) for b in ("start", "end") if b in a1[2]]
            elif a1[0] != "ctor":
                bounds = [strip(a1)]
            ok = all((v[0] == "lit" and isinstance(v[1], int) and v[1] <= c0) or key(v) in s0 or (is_call(v) and v[1] in LEN_Q and key(v[2][0]) == K) for v in bounds)
            ob("vec-range", name.split("::")[-1], ok, "%s(%s) needs the range to lie within len(%s); established len >= %d [%s]" % (name, tshow(a1)[:40], K, c0, pc), node)
            fx.mutate(K)
            continue
        if name in T["index"]:
            K = key(args[0])
            i = T["index"][name]
            v = strip(args[i]) if i is not None and i < len(args) else None
            c0, _ = fx.bound(K)
            ok = v is not None and v[0] == "lit" and isinstance(v[1], int) and c0 >= v[1] + (0 if name.endswith("::insert") else 1)
            ob("vec-index", name.split("::")[-1], ok, "%s(%s) needs len(%s) > %s; established len >= %d [%s]" % (name, tshow(v), K, tshow(v), c0, pc), node)
            continue
        if name in T["some_ok"]:
            K = key(args[0])
            ob("unwrap", name.split("::")[-1], K in fx.some, "%s on %s which is not known to be Some/Ok on this path [%s]" % (name, K[:80], pc), node)
            continue
        if name in T["always"] or (name.startswith("macro::") and name.split("::")[-1] in T["panic_macros"]):
            ob("panic", name.split("::")[-1], False, "explicit panic reachable [%s]" % pc, node)
            continue
        if name == "<assignop>" and len(args) > 3 and args[1][1] == "AddAssign" and args[3][1] in ("u8", "i8", "u16", "i16"):
            rhs = strip(args[2])
            ob("arith", "addition", False, "%s += %s on %s can overflow after a few thousand tokens (panics where overflow checks are on) [%s]" % (
                args[0][1], tshow(rhs)[:40], args[3][1], pc), node)
            continue
        if name == "<arith>":
            op, a, b, ty = args[0][1], strip(args[1]), strip(args[2]), args[3][1]
            if op == "Sub":
                folded = simp(("bin", "Sub", a, b))
                ok = folded[0] != "bin" or folded[1] != "Sub"
                if not ok and (ty or "").startswith("u"):
                    ka, kb = key(a), key(b)
                    if (ka, kb) in fx.ge or (kb, ka) in fx.lt:
                        ok = True
                    if b[0] == "lit" and isinstance(b[1], int):
                        if b[1] == 1 and ka in fx.gt0:
                            ok = True
                        if is_call(a) and a[1] in LEN_Q and fx.bound(key(a[2][0]))[0] >= b[1]:
                            ok = True
                elif not ok:
                    ok = False
                ob("arith", "subtraction", ok, "%s - %s on %s is not shown to stay in range [%s]" % (tshow(a)[:40], tshow(b)[:40], ty, pc), node)
            elif op == "Add":
                # overflow checks are on in debug / test builds: a narrow addition of two run-time values panics there.
                # usize / u64 / i64 sums of in-memory lengths cannot reach the type's range and are not counted.
                W = {"u8": 8, "i8": 7, "u16": 16, "i16": 15, "u32": 32, "i32": 31}
                if ty in W:
                    def bits(x):
                        if x[0] == "lit" and isinstance(x[1], int):
                            return max(x[1], 0).bit_length()
                        return W[ty]
                    def src_bits(orig):
                        # a widening cast of a narrower unsigned value keeps its range
                        if isinstance(orig, tuple) and orig[0] == "cast":
                            inner = orig[2]
                            ity = inner[3].get("ty") if (is_call(inner) and len(inner) > 3 and isinstance(inner[3], dict)) else None
                            if ity in W and W[ity] < W[ty]:
                                return W[ity]
                        return bits(strip(orig))
                    wa, wb = src_bits(args[1]), src_bits(args[2])
                    ok = max(wa, wb) + 1 <= W[ty]
                    ob("arith", "addition", ok, "%s + %s on %s can overflow (panics where overflow checks are on, wraps silently elsewhere) [%s]" % (
                        tshow(a)[:40], tshow(b)[:40], ty, pc), node)
            elif op in ("Div", "Rem"):
                ok = b[0] == "lit" and b[1] not in (0, -1)
                ob("arith", "division", ok, "divisor %s" % tshow(b)[:40], node)
            elif op in ("Mul", "Shl", "Shr"):
                ok = a[0] == "lit" and b[0] == "lit"
                ob("arith", op.lower(), ok, "%s %s %s on %s can overflow" % (tshow(a)[:30], op, tshow(b)[:30], ty), node)
            continue
        # a tracked buffer handed to an unknown callee loses its bound
        if name not in T["buf_queries"] and not name.startswith("<"):
            for a in args:
                fx.mutate(key(a))
    while ci < len(p.conds):
        apply_cond(fx, p.conds[ci])
        ci += 1
    r = getattr(p, "ret", None)
    if isinstance(r, tuple) and r[0] == "ctor" and not r[1].endswith("::Err") and getattr(p, "kind", "") != "try":
        for K_ in list(fx.tight):
            settle(K_, "the successful return")
    return


def r_guard(run, F, T, bodies):
    counts = {}
    n_fn = 0
    for path in sorted(bodies):
        body = F.hir[path]
        if body.get("from_expansion") or not standalone(F, path):
            continue
        n_fn += 1
        try:
            paths = paths_of(body)
        except TooManyPaths:
            run.ob("R-GUARD", "%s analysable" % path, False, "too many paths", site(body), key="R-GUARD|%s|too-many-paths" % path)
            continue
        seen = set()
        for p in paths:
            replay(run, F, body, p, T, counts)
            # loop bodies are separate paths
            for t, conds in all_calls(p):
                pass
        # loops: replay body paths with the outer conditions in force
        for p in paths:
            for t in p.trace:
                if is_call(t) and t[1] in ("<for>", "<loop>") and isinstance(t[3], dict) and id(t[3]) not in seen:
                    seen.add(id(t[3]))
                    pre = p.conds[:t[4]] if len(t) > 4 else p.conds
                    for bp in list(t[3].get("paths", [])) + list(t[3].get("breaks", [])):
                        shifted = [(x[:4] + (x[4] + len(pre),)) if (len(x) > 4 and isinstance(x[4], int)) else x for x in bp.trace]
                        fake = type("P", (), {"conds": list(pre) + list(bp.conds), "trace": shifted})()
                        replay(run, F, body, fake, T, counts)
    return n_fn, counts


# ---------------------------------------------------------------------------------------------
def r_depth(run, F, T, rule="R-DEPTH"):
    """Nesting of the recursive value type is bounded by a constant where the parser lets it grow."""
    adts = F.adts
    v = adts.get("ipp::value::IppValue")
    recursive = bool(v) and any("ipp::value::IppValue" in f["ty"] for var in v["variants"] for f in var["fields"])
    run.ob(rule, "IppValue is a recursive type (drop/clone/display/encode recurse to the nesting depth)", recursive, "type is no longer recursive", key="%s|recursive" % rule)
    fn = "ipp::parser::ParserState::parse_value"
    b = F.body(fn)
    if b is None:
        run.anchor_lost(rule, fn)
        return None
    ctx = ("field", ("var", "self"), "context")
    pushes = 0
    K = None
    for p in paths_of(b):
        calls = [t for t in p.trace if is_call(t)]
        popped = False
        for t in calls:
            if t[1] == "std::vec::Vec::<T, A>::pop" and t[2][0] == ctx:
                popped = True
            if t[1] == "std::vec::Vec::<T, A>::push" and t[2][0] == ctx and not popped:
                pushes += 1
                stamp = t[4] if len(t) > 4 else len(p.conds)
                bound = None
                for c in p.conds[:stamp]:
                    if c[0] != "if":
                        continue
                    tt, pol = c[1], c[2]
                    while isinstance(tt, tuple) and tt[0] == "un" and tt[1] == "Not":
                        tt, pol = tt[2], not pol
                    if tt[0] == "bin" and tt[1] in ("Gt", "Ge", "Lt", "Le") and is_call(strip(tt[2]), "std::vec::Vec::<T, A>::len") and strip(tt[2])[2][0] == ctx:
                        lim = strip(tt[3])
                        val = lim[1] if lim[0] == "lit" else (F.const_value(lim[1]) if lim[0] == "def" else None)
                        # len > K false / len >= K false  => len <= K ; len < K true / len <= K true
                        if isinstance(val, int) and ((tt[1] in ("Gt", "Ge") and not pol) or (tt[1] in ("Lt", "Le") and pol)):
                            bound = val + (1 if tt[1] in ("Gt", "Le") else 0)
                run.ob(rule, "the collection stack grows only below a constant depth limit", bound is not None,
                       "self.context.push(..) at begin-collection is not dominated by a comparison of self.context.len() with a constant: nesting depth of the parsed "
                       "value is attacker-controlled, and drop / clone / Display / to_bytes of the result recurse to that depth (stack overflow)", site(b, t[3]),
                       key="%s|%s|unbounded-push" % (rule, fn))
                if bound is not None:
                    K = bound if K is None else max(K, bound)
                    run.ob(rule, "depth limit K = %d <= %d" % (bound, T["max_depth"]), bound <= T["max_depth"], "limit %d is too large for a recursive drop on a default thread stack" % bound,
                           site(b, t[3]), key="%s|%s|limit-too-large" % (rule, fn))
                    # the failing side is an error return
                    errs = [q for q in paths_of(b) if q.kind in ("return",) and q.ret[0] == "ctor" and q.ret[1].endswith("::Err") and
                            any(c[0] == "if" and any(is_call(x, "std::vec::Vec::<T, A>::len") and x[2][0] == ctx for x in subterms(c[1])) for c in q.conds)]
                    run.ob(rule, "exceeding the limit is an error, not a silent truncation", len(errs) >= 1, "no Err path on the limit comparison", site(b),
                           key="%s|%s|limit-error" % (rule, fn))
    run.floor(rule, pushes, 1, "nesting-increasing pushes on the collection stack")
    return K


def r_norec(run, F, g, parse_cone, rule="R-NOREC"):
    core = {f for f in parse_cone if f.startswith(("ipp::parser::", "ipp::reader::", "ipp::value::IppValue::parse", "ipp::value::get_len_string"))}
    # cycles that stay outside the parser / reader / decoder (Display reached through a trace! of one freshly decoded, non-nested value) are the
    # structural recursions of the inspect cone, judged by R-LOOP and bounded by R-DEPTH
    cyc = [c for c in cycles(g, parse_cone) if any(f in core for f in c)]
    run.ob(rule, "no recursion through parser / reader / decoder functions (%d functions in the parse cone)" % len(parse_cone), not cyc,
           "call cycle among parser functions: %s (the parser would recurse on attacker-controlled structure)" % cyc, key="%s|cycle" % rule)


FINITE_ITERS = ("core::slice::Iter", "std::slice::Iter", "std::iter::Enumerate", "std::collections::btree_map::Iter", "std::collections::hash_map::Values",
                "std::collections::hash_map::Iter", "std::vec::IntoIter", "std::iter::StepBy<std::ops::Range", "std::ops::Range<", "std::iter::Filter<",
                "std::collections::btree_map::Values", "std::iter::Map<", "std::iter::FilterMap<", "std::collections::btree_map::IntoIter", "&[", "[&", "&std::vec::Vec<",
                "&std::collections::", "std::vec::Vec<", "std::iter::Skip<", "std::iter::Zip<", "std::iter::Rev<", "std::iter::Take<", "&&[", "ipp::value::IppValueIterator", "std::iter::Chain<")


def r_loop(run, F, g, bodies, inspect_cone, rule="R-LOOP"):
    n_iter = n_other = 0
    for path in sorted(bodies):
        body = F.hir[path]
        if body.get("from_expansion"):
            continue
        for n in walk(body["body"]):
            if n.get("k") == "match" and n.get("src") == "for":
                sc = unwrap(n["scrut"])
                if sc.get("k") == "call" and (sc.get("callee") or "").endswith("IntoIterator::into_iter"):
                    ty = unwrap(sc["args"][0]).get("ty") or ""
                    n_iter += 1
                    run.ob(rule, "%s: for-loop over a finite in-memory container" % path.split("::", 2)[-1], ty.startswith(FINITE_ITERS),
                           "loop source of type %s is not a recognised finite container iterator" % ty[:80], site(body, n), key="%s|%s|for-source|%s" % (rule, path, ty[:40]))
            if n.get("k") == "loop" and n.get("src") != "ForLoop":
                # await desugaring loops are scheduling, not iteration over input
                if n.get("exp") and any("desugar:Await" in e for e in n["exp"]):
                    continue
                n_other += 1
                is_drive = path.endswith("::parse_header_attributes")
                run.ob(rule, "%s: loop is the input drive loop" % path.split("::", 2)[-1], is_drive and n.get("src") in ("Loop", "While"),     # (that every iteration consumes a tag byte is R-LOOP's no-progress clause on the loop's paths)
                       "a `%s` loop in the parse/inspect cone is not classified (every loop must consume input or iterate a finite container)" % n.get("src"), site(body, n),
                       key="%s|%s|unclassified-loop" % (rule, path))
    # recursion in the inspect cone must be structural
    for comp in cycles(g, inspect_cone):
        for fn in comp:
            body = F.hir[fn]
            if body.get("from_expansion"):
                continue
            for p in paths_of(body):
                for t, _ in all_calls(p):
                    tgt = t[1]
                    node = t[3] if len(t) > 3 and isinstance(t[3], dict) else {}
                    res = node.get("resolved") or (node.get("f", {}).get("res", {}).get("resolved") if isinstance(node.get("f"), dict) else None)
                    if (tgt in comp or res in comp) and t[2]:
                        recv = t[2][0]
                        structural = recv != ("var", "self") and any(x[0] in ("elem", "proj", "field") for x in subterms(recv))
                        run.ob(rule, "%s: recursive call descends into an element" % fn.split("::", 2)[-1], structural,
                               "recursive call on %s does not descend into a sub-value" % tshow(recv)[:60], site(body, node), key="%s|%s|non-structural" % (rule, fn))
    return n_iter, n_other
