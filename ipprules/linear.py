"""R-LINEAR: no silent drop of a received value in the parser state machine.

Works on the drop-elaborated MIR (`optimized_mir` at mir-opt-level 0). Scope-end drops are conditional on
boolean drop flags, so the rule explores the *product* of the CFG with the drop-flag valuation (flags only
ever receive constants) and with the kind of the pending return value (Ok / Err). A product state whose
terminator drops a place whose type contains a message value, and from which a non-error return is
reachable, is a loss state. It is allowed only if every product path from entry to it crosses a sanctioned
edge: (i) the None edge of `next()` of the very iterator being dropped, (ii) the None edge of a switch on
the discriminant of the dropped place itself, (v) a `take`/`replace` of the dropped place, (iv) an edge
listed in the exception table by its *condition term* (never by block number). This is a cut-set test."""
from collections import deque


def pl(body, p, term_of=None):
    s = local_name(body, p["l"], term_of)
    for e in p["p"]:
        if e == "deref":
            s = "(*%s)" % s if not s.startswith("self") else s
        elif isinstance(e, dict) and "f" in e:
            s += ".%s" % e.get("name", e["f"])
        elif isinstance(e, dict) and "downcast" in e:
            s += " as %s" % e["vname"]
        elif isinstance(e, dict) and "index" in e:
            s += "[_]"
        else:
            s += ".?"
    return s.replace("(*self)", "self")


def local_name(body, l, term_of=None):
    loc = body["locals"][l]
    if loc.get("name"):
        # parameters are named by position (renaming one must not invalidate a reviewed exception); `self` keeps its name
        if 1 <= l <= int(body.get("arg_count") or 0) and loc["name"] != "self":
            return "arg%d" % l
        return loc["name"]
    if term_of is not None:
        return term_of(l)
    return "_%d" % l


def short_fn(path):
    """`std::vec::Vec::<T, A>::len` -> `Vec::len`; keeps trait-qualified paths readable."""
    import re
    p = re.sub(r"::<[^>]*>", "", path)
    parts = p.split("::")
    return "::".join(parts[-2:]) if len(parts) >= 2 else p


def place_key(p):
    return (p["l"], tuple(str(e) if not isinstance(e, dict) else tuple(sorted((k, str(v)) for k, v in e.items() if k != "name")) for e in p["p"]))


class Mir:
    def __init__(self, body):
        self.b = body
        self.blocks = body["blocks"]
        self.defs = {}       # local -> list of ('assign', bb, stmt) / ('call', bb, term)
        for bi, bl in enumerate(self.blocks):
            for s in bl["s"]:
                if s["k"] == "assign" and not s["place"]["p"]:
                    self.defs.setdefault(s["place"]["l"], []).append(("assign", bi, s))
            t = bl["t"]
            if t and t.get("k") == "call" and not t["dest"]["p"]:
                self.defs.setdefault(t["dest"]["l"], []).append(("call", bi, t))
        self.flags = self._flags()

    def _flags(self):
        flags = set()
        for l, loc in enumerate(self.b["locals"]):
            if loc["ty"] != "bool" or loc.get("name"):
                continue
            ds = self.defs.get(l, [])
            if ds and all(d[0] == "assign" and d[2]["rv"]["k"] == "use" and "const" in d[2]["rv"]["op"] and d[2]["rv"]["op"]["const"].get("v") in (0, 1) for d in ds):
                flags.add(l)
        return flags

    # -- rendering ---------------------------------------------------------------------
    def term(self, l, depth=0):
        loc = self.b["locals"][l]
        if loc.get("name"):
            return loc["name"]
        ds = self.defs.get(l, [])
        if len(ds) != 1 or depth > 14:
            return "_"
        kind, bi, x = ds[0]
        if kind == "call":
            return "%s(%s)" % (short_fn(self.op(x["func"], depth + 1)), ", ".join(self.op(a, depth + 1) for a in x["args"]))
        return self.rv(x["rv"], depth + 1)

    def place(self, p, depth=0):
        if len(p["p"]) == 1 and isinstance(p["p"][0], dict) and p["p"][0].get("f") == 0 and not self.b["locals"][p["l"]].get("name"):
            ds = self.defs.get(p["l"], [])
            if len(ds) == 1 and ds[0][0] == "assign" and ds[0][2]["rv"]["k"] == "bin" and ds[0][2]["rv"]["op"] == "AddWithOverflow":
                return self.rv(ds[0][2]["rv"], depth + 1)
        if p["p"] and isinstance(p["p"][0], dict) and "f" in p["p"][0] and not self.b["locals"][p["l"]].get("name") and depth < 14:
            # a field of a tuple built only to be matched - `match (a, b) { (Some(x), Some(y)) => .. }` - is the operand it was built from
            ds = self.defs.get(p["l"], [])
            if len(ds) == 1 and ds[0][0] == "assign" and ds[0][2]["rv"]["k"] == "agg" and ds[0][2]["rv"].get("ak") == "tuple" and \
                    p["p"][0]["f"] < len(ds[0][2]["rv"].get("fields", [])):
                o = ds[0][2]["rv"]["fields"][p["p"][0]["f"]]
                q = o.get("copy") or o.get("move")
                if q is not None:
                    return self.place({"l": q["l"], "p": list(q["p"]) + list(p["p"][1:])}, depth + 1)
        if p["p"] and not self.b["locals"][p["l"]].get("name") and depth < 14:
            # a projection of an unnamed temporary that merely holds another place
            ds = self.defs.get(p["l"], [])
            if len(ds) == 1 and ds[0][0] == "assign" and ds[0][2]["rv"]["k"] == "use":
                q = ds[0][2]["rv"]["op"].get("move") or ds[0][2]["rv"]["op"].get("copy")
                if q is not None and (q["p"] or self.b["locals"][q["l"]].get("name")):
                    return self.place({"l": q["l"], "p": list(q["p"]) + list(p["p"])}, depth + 1)
        return pl(self.b, p, lambda l: self.term(l, depth + 1))

    def op(self, o, depth=0):
        if "copy" in o:
            return self.place(o["copy"], depth)
        if "move" in o:
            return self.place(o["move"], depth)
        if "const" in o:
            c = o["const"]
            if "fn" in c:
                return c["fn"]
            if "v" in c:
                return str(c["v"])
            if "str" in c:
                return repr(c["str"])
            if "named" in c:
                return c["named"].replace("::{constant#0}", "")
            return "const"
        return "?"

    def rv(self, r, depth=0):
        k = r["k"]
        if k == "use":
            return self.op(r["op"], depth)
        if k == "ref":
            return "&%s%s" % ("mut " if r["bk"] == "mut" else "", self.place(r["place"], depth))
        if k == "bin":
            if r["op"] == "AddWithOverflow" and self.op(r["b"], depth) == "0":
                return self.op(r["a"], depth)      # enum discriminant constants are built as `D + 0`
            a, b = self.op(r["a"], depth), self.op(r["b"], depth)
            if r["op"] in ("Eq", "Ne") and ("::" in a or a[:1].isdigit() or a.startswith("'")) and not ("::" in b or b[:1].isdigit()):
                a, b = b, a          # commutative comparison: variable first, constant second
            return "%s(%s, %s)" % (r["op"], a, b)
        if k == "un":
            return "%s(%s)" % (r["op"], self.op(r["a"], depth))
        if k == "cast":
            return "%s as %s" % (self.op(r["op"], depth), r["ty"])
        if k == "disc":
            return "discriminant(%s)" % self.place(r["place"], depth)
        if k == "agg":
            return "%s{..}" % (r.get("variant") or r["ak"])
        return k

    def switch_cond(self, bi):
        return self.canon_switch(bi)[0]

    def raw_switch_cond(self, bi):
        t = self.blocks[bi]["t"]
        o = t["op"]
        p = o.get("copy") or o.get("move")
        if p is None:
            return self.op(o)
        if p["p"] or self.b["locals"][p["l"]].get("name"):
            return self.place(p)
        return self.term(p["l"])

    def canon_switch(self, bi):
        """(condition text, {raw edge value: canonical edge label}): `x == 3` tested as a bool and `match x { 3 => .. }` give the same
        condition `x` with edges `3` / `otherwise`; `o.as_mut()` / `o.as_ref()` under a discriminant are `o`."""
        import re
        c = self.raw_switch_cond(bi)
        c = re.sub(r"Option::as_(?:mut|ref|deref|deref_mut)\(&(?:mut )?([^()]*(?:\([^()]*\))?[^()]*)\)", r"\1", c)
        t = self.blocks[bi]["t"]
        c = canon_enum_const(c)
        m = re.match(r"^(Eq|Ne)\((.*), (-?\d+)\)$", c)
        if m and set(t["vals"]) <= {0}:
            # bool switch: vals [0] -> false edge, otherwise -> true edge
            eq = m.group(1) == "Eq"
            return m.group(2), {0: ("otherwise" if eq else m.group(3)), "otherwise": (m.group(3) if eq else "otherwise")}
        return c, {}

    def canon_edge(self, bi, val):
        return self.canon_switch(bi)[1].get(val, val)

    # -- product exploration -----------------------------------------------------------
    def step_flags(self, bi, flags):
        f = dict(flags)
        ret = None
        for s in self.blocks[bi]["s"]:
            if s["k"] != "assign" or s["place"]["p"]:
                continue
            l = s["place"]["l"]
            if l in self.flags:
                f[l] = s["rv"]["op"]["const"]["v"]
            if l == 0:
                rv = s["rv"]
                if rv["k"] == "agg" and (rv.get("variant") or "").endswith("::Err"):
                    ret = "Err"
                elif rv["k"] == "agg" and (rv.get("variant") or "").endswith("::Ok"):
                    ret = "Ok"
                else:
                    ret = "?"
        return f, ret

    def edges(self, bi, flags):
        """successor edges of block bi given flag valuation AFTER its statements: [(target, label)]"""
        t = self.blocks[bi]["t"]
        if not t:
            return []
        k = t["k"]
        if k == "switch":
            o = t["op"]
            p = o.get("copy") or o.get("move")
            if p is not None and not p["p"] and p["l"] in self.flags and flags.get(p["l"]) is not None:
                v = flags[p["l"]]
                for val, tgt in zip(t["vals"], t["targets"]):
                    if val == v:
                        return [(tgt, ("switch", bi, val))]
                return [(t["otherwise"], ("switch", bi, "otherwise"))]
            out = [(tgt, ("switch", bi, val)) for val, tgt in zip(t["vals"], t["targets"])]
            out.append((t["otherwise"], ("switch", bi, "otherwise")))
            return out
        if k in ("goto", "drop", "assert", "yield"):
            return [(t["target"], (k, bi, None))]
        if k == "call":
            return [(t["target"], ("call", bi, None))] if "target" in t else []
        return []

    def explore(self, cut_edges=frozenset(), cut_blocks=frozenset()):
        """BFS over (bb, flags, ret). Returns (states dict state->parent, list of states)."""
        flags0 = {l: None for l in self.flags}
        start = (0, tuple(sorted(flags0.items())), None)
        parent = {start: None}
        q = deque([start])
        while q:
            st = q.popleft()
            bi, fl, ret = st
            f, r = self.step_flags(bi, dict(fl))
            ret2 = r if r is not None else ret
            t = self.blocks[bi]["t"]
            if t and t["k"] == "call" and not t["dest"]["p"] and t["dest"]["l"] == 0:
                fn = (t["func"].get("const") or {}).get("fn", "")
                ret2 = "Err" if fn.endswith("from_residual") else "?"
            if bi in cut_blocks:
                continue
            for tgt, label in self.edges(bi, f):
                if label in cut_edges or (label[0] == "switch" and (label[1], label[2]) in cut_edges):
                    continue
                ns = (tgt, tuple(sorted(f.items())), ret2)
                if ns not in parent:
                    parent[ns] = (st, label)
                    q.append(ns)
        return parent

    def can_return_ok(self, st, parent_all):
        """From product state st, is a `return` with a non-error pending value reachable?"""
        seen = {st}
        q = deque([st])
        while q:
            cur = q.popleft()
            bi, fl, ret = cur
            f, r = self.step_flags(bi, dict(fl))
            ret2 = r if r is not None else ret
            t = self.blocks[bi]["t"]
            if t and t["k"] == "call" and not t["dest"]["p"] and t["dest"]["l"] == 0:
                fn = (t["func"].get("const") or {}).get("fn", "")
                ret2 = "Err" if fn.endswith("from_residual") else "?"
            if t and t["k"] == "return":
                if ret2 != "Err":
                    return True
                continue
            for tgt, label in self.edges(bi, f):
                ns = (tgt, tuple(sorted(f.items())), ret2)
                if ns not in seen:
                    seen.add(ns)
                    q.append(ns)
        return False

    def path_conditions(self, parent, st, limit=10):
        conds = []
        cur = st
        while parent.get(cur) is not None:
            prev, label = parent[cur]
            if label[0] == "switch":
                bi = label[1]
                t = self.blocks[bi]["t"]
                o = t["op"]
                p = o.get("copy") or o.get("move")
                if not (p is not None and not p["p"] and p["l"] in self.flags):
                    conds.append("%s -> %s" % (self.switch_cond(bi), self.canon_edge(bi, label[2])))
            cur = prev
        conds.reverse()
        return conds[-limit:]


DISCR = {}      # enum variant path -> discriminant, filled by the caller from the type facts


def canon_enum_const(c):
    """`Eq(x, ipp::model::ValueTag::BegCollection as u8)` is `Eq(x, 55)`: a comparison with a named discriminant and a match on the number are one test."""
    import re
    m = re.match(r"^(Eq|Ne)\((.*), ([A-Za-z_][A-Za-z0-9_:]*) as [ui](?:8|16|32|64|size)\)$", c)
    if m and m.group(3) in DISCR:
        return "%s(%s, %s)" % (m.group(1), m.group(2), DISCR[m.group(3)])
    return c


def canon_exception(econd, eedge):
    """An exception written against a bool-tested comparison, in the canonical (condition, edge) form canon_switch produces."""
    import re
    c = canon_enum_const(econd)
    m = re.match(r"^(Eq|Ne)\((.*), (-?\d+)\)$", c)
    if m:
        eq = m.group(1) == "Eq"
        if str(eedge) == "0":
            return m.group(2), ("otherwise" if eq else m.group(3))
        if str(eedge) == "otherwise":
            return m.group(2), (m.group(3) if eq else "otherwise")
    return econd, eedge


def ref_target(m, operand, depth=0):
    """If operand is (a reborrow chain of) `&mut P` / `&P` held in single-def temps, return place_key(P)."""
    ap = operand.get("move") or operand.get("copy")
    if ap is None or ap["p"] or depth > 4:
        return None
    dd = m.defs.get(ap["l"], [])
    if len(dd) != 1 or dd[0][0] != "assign":
        return None
    rv = dd[0][2]["rv"]
    if rv["k"] == "ref":
        P = rv["place"]
        if P["p"] == ["deref"] or (len(P["p"]) == 1 and P["p"][0] == "deref"):
            inner = ref_target(m, {"copy": {"l": P["l"], "p": []}}, depth + 1)
            if inner is not None:
                return inner
        return place_key(P)
    if rv["k"] == "use":
        return ref_target(m, rv["op"], depth + 1)
    return None


def analyse(body, markers, exception_edges, displaced_ok=True):
    """-> (loss sites: list of dict(place, pty, line, sanctioned(bool), why, path), stats)"""
    m = Mir(body)
    parent = m.explore()
    # candidate loss states
    cands = {}
    for st in parent:
        bi = st[0]
        t = m.blocks[bi]["t"]
        if not t or t["k"] != "drop" or m.blocks[bi]["cleanup"]:
            continue
        if not any(mk in t["pty"] for mk in markers):
            continue
        cands.setdefault(bi, []).append(st)
    results = []
    for bi, sts in sorted(cands.items()):
        t = m.blocks[bi]["t"]
        place = t["place"]
        pk = place_key(place)
        desc = m.place(place)
        lossy = [st for st in sts if m.can_return_ok(st, parent)]
        if not lossy:
            results.append({"place": desc, "pty": t["pty"], "line": t.get("ln"), "sanctioned": True, "why": "only on error returns", "bb": bi})
            continue
        # class exemption: value displaced by a map insert
        root = place["l"]
        ds = m.defs.get(root, [])
        if displaced_ok and not place["p"] and len(ds) == 1 and ds[0][0] == "call" and \
                (ds[0][2]["func"].get("const") or {}).get("fn", "").endswith(("Map::<K, V, S, A>::insert", "Map::<K, V, A>::insert")):
            results.append({"place": desc, "pty": t["pty"], "line": t.get("ln"), "sanctioned": True, "bb": bi,
                            "why": "value displaced by a map insert (duplicate names are not well-formed input); reported, not a loss"})
            continue
        cut = set()
        cut_blocks = set()
        used = []
        for b2, bl in enumerate(m.blocks):
            tt = bl["t"]
            if not tt:
                continue
            # (v) take / replace of the very place
            if tt["k"] == "call":
                fn = (tt["func"].get("const") or {}).get("fn", "")
                if fn.endswith(("Option::<T>::take", "std::mem::take", "std::mem::replace", "core::mem::take", "core::mem::replace")) and tt["args"]:
                    if ref_target(m, tt["args"][0]) == pk:
                        cut_blocks.add(b2)
                        used.append("after %s(&mut %s)" % (fn.split("::")[-1], desc))
                # (i) exhausted iterator: next(&mut I) -> None
                if fn.endswith("::next") and tt["args"] and "target" in tt:
                    if ref_target(m, tt["args"][0]) == pk:
                        if True:
                            # the switch on discriminant(dest) in the target block
                            dest = tt["dest"]
                            for b3 in (tt["target"],):
                                t3 = m.blocks[b3]["t"]
                                if t3 and t3["k"] == "switch" and any(s["k"] == "assign" and s["rv"]["k"] == "disc" and place_key(s["rv"]["place"]) == place_key(dest)
                                                                       for s in m.blocks[b3]["s"]):
                                    for val in list(t3["vals"]) + ["otherwise"]:
                                        if val == 0 or (val == "otherwise" and 0 not in t3["vals"]):
                                            cut.add((b3, val))
                                            used.append("None edge of %s.next()" % desc)
            # (ii) switch on discriminant of the dropped place itself: the None edge
            if tt["k"] == "switch":
                for s in bl["s"]:
                    if s["k"] == "assign" and s["rv"]["k"] == "disc" and place_key(s["rv"]["place"]) == pk:
                        o = tt["op"]
                        p = o.get("copy") or o.get("move")
                        if p is not None and not p["p"] and p["l"] == s["place"]["l"]:
                            for val in list(tt["vals"]) + ["otherwise"]:
                                if val == 0 or (val == "otherwise" and 0 not in tt["vals"]):
                                    cut.add((b2, val))
                                    used.append("None edge of discriminant(%s)" % desc)
                # (ii') the dropped place lives inside a variant of an enclosing place (`(t.0 as Some).0`): on every edge of a switch on
                # discriminant(t.0) other than that variant's there is no such value (drop elaboration re-tests the discriminant itself)
                for i_, e_ in enumerate(place["p"]):
                    if isinstance(e_, dict) and "downcast" in e_ and str(e_.get("vname")) in ("Some", "Ok", "Err"):
                        outer = place_key({"l": place["l"], "p": place["p"][:i_]})
                        want = {"Some": 1, "Ok": 0, "Err": 1}[str(e_["vname"])]
                        for s in bl["s"]:
                            if s["k"] == "assign" and s["rv"]["k"] == "disc" and place_key(s["rv"]["place"]) == outer:
                                o = tt["op"]
                                p = o.get("copy") or o.get("move")
                                if p is not None and not p["p"] and p["l"] == s["place"]["l"]:
                                    for val in list(tt["vals"]) + ["otherwise"]:
                                        if val != want and not (val == "otherwise" and want not in tt["vals"]):
                                            cut.add((b2, val))
                                            used.append("edges of discriminant(%s) other than %s" % (m.place({"l": place["l"], "p": place["p"][:i_]}), e_["vname"]))
                # (iv) exception edges by condition term
                cond = m.switch_cond(b2)
                for (eplace, econd, eedge), reason in exception_edges.items():
                    # a place is named by its text (parameters by position) or, for let-bound locals, by its type: `<Vec<IppValue>>`
                    ccond, cedge = canon_exception(econd, eedge)
                    # (`let Self { reader, state } = self` makes `self.state.context` the place `state.context`)
                    if (econd == cond or ccond == cond) and (eplace in (desc, "<%s>" % t["pty"]) or eplace.replace("self.", "", 1) == desc.replace("self.", "", 1)):
                        for val in list(tt["vals"]) + ["otherwise"]:
                            if str(m.canon_edge(b2, val)) in (str(eedge), str(cedge)) and (econd == cond or str(m.canon_edge(b2, val)) == str(cedge)):
                                cut.add((b2, val))
                                used.append("exception: %s|%s -> %s" % (eplace, econd, eedge))
        parent_cut = m.explore(cut_edges=frozenset(cut), cut_blocks=frozenset(cut_blocks))
        still = [st for st in lossy if st in parent_cut]
        if not still:
            results.append({"place": desc, "pty": t["pty"], "line": t.get("ln"), "sanctioned": True, "why": "; ".join(sorted(set(used))), "bb": bi, "used": sorted(set(used))})
        else:
            results.append({"place": desc, "pty": t["pty"], "line": t.get("ln"), "sanctioned": False, "bb": bi,
                            "path": m.path_conditions(parent_cut, still[0]), "why": "reachable on a non-error path after removing the sanctioned edges %s" % sorted(set(used))})
    stats = {"product_states": len(parent), "flags": len(m.flags), "blocks": len(m.blocks), "drop_sites": len(cands)}
    return results, stats, m
