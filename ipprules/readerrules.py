"""Rules over the reader / parser front ends shared by C02, C04, C06, C07:
R-READEXACT, R-DISPATCH, R-STOP, R-ONLYEXIT, R-PROPAGATE, R-ERRWRAP, R-LOSSY."""
import re

from .facts import callee, show, site, unwrap, walk
from .symx import TooManyPaths, all_calls, cshow, known_functions, paths_of, reviewed_param_name, tshow
from .terms import is_call, mentions, opt_polarity, same, subterms

READERS = {"ipp::reader::IppReader": "std::io::Read::read_exact", "ipp::reader::AsyncIppReader": "futures_util::AsyncReadExt::read_exact"}
PARSERS = ("ipp::parser::IppParser", "ipp::parser::AsyncIppParser")
FORBIDDEN_IO = {"read", "read_to_end", "read_to_string", "read_vectored", "read_buf", "bytes", "take", "poll_read", "poll_fill_buf", "fill_buf", "consume",
                "read_until", "read_line", "lines", "peek", "by_ref"}
FORBIDDEN_TYPES = ("BufReader", "Take<", "Chain<", "Peekable", "LineWriter")
END = "ipp::model::DelimiterTag::EndOfAttributes"


def non_test_bodies(F, prefixes):
    for path, body in F.hir.items():
        if "::tests::" in path or body["kind"] not in ("Fn", "AssocFn"):
            continue
        if any(path.startswith(p) or ("<" + p) in path or (p + "<") in path for p in prefixes):
            yield path, body


def async_on(F):
    return "async" in F.features


def reader_types(F):
    return [r for r in READERS if r == "ipp::reader::IppReader" or async_on(F)]


# ---------------------------------------------------------------------------------------------
def r_readexact(run, F, rule="R-READEXACT"):
    """Only read_exact on exactly-sized buffers touches the source; the readers own nothing but the source."""
    n_sites = 0
    for rty in reader_types(F):
        adt = F.adts.get(rty)
        if adt is None:
            run.anchor_lost(rule, rty)
            continue
        fields = adt["variants"][0]["fields"]
        st = "%s:%s (%s)" % (adt["file"], adt["line"], rty)
        run.ob(rule, "%s owns exactly the source" % rty.split("::")[-1], len(fields) == 1 and fields[0]["name"] == "inner" and fields[0]["ty"] == "R",
               "fields: %s (a buffering or counting wrapper can read ahead of the message)" % [(f["name"], f["ty"]) for f in fields], st, key="%s|%s|fields" % (rule, rty))
        want = READERS[rty]
        for path, body in non_test_bodies(F, [rty]):
            for n in walk(body["body"]):
                # any expression that denotes self.inner
                if n.get("k") == "field" and n["name"] == "inner":
                    base = unwrap(n["e"])
                    if not (base.get("k") == "path" and base["res"].get("name") == "self"):
                        continue
                    n["_seen_inner"] = True
            # classify each use of self.inner by its consumer
            for n in walk(body["body"]):
                if n.get("k") == "mcall":
                    recv = unwrap(n["recv"])
                    while recv.get("k") in ("ref", "un"):
                        recv = unwrap(recv["e"])
                    if recv.get("_seen_inner"):
                        recv["_consumed"] = True
                        n_sites += 1
                        c = n.get("callee")
                        run.ob(rule, "%s: source touched through read_exact" % path.split("::", 2)[-1], c == want,
                               "self.inner.%s(..) resolves to %s; only %s may touch the source (partial reads / read-ahead change what is consumed)" % (n["name"], c, want),
                               site(body, n), key="%s|%s|source-call|%s" % (rule, path, n["name"]))
                        if c == want:
                            buf = unwrap(n["args"][0])
                            ok, why = exact_buffer(body, buf)
                            run.ob(rule, "%s: buffer is exactly the element size" % path.split("::", 2)[-1], ok, why, site(body, n),
                                   key="%s|%s|buffer" % (rule, path))
                if n.get("k") == "call":
                    for a in n.get("args", []):
                        x = unwrap(a)
                        while x.get("k") in ("ref", "un"):
                            x = unwrap(x["e"])
                        if x.get("_seen_inner"):
                            x["_consumed"] = True
                            c = n.get("callee") or n.get("ctor")
                            ok = c in ("ipp::payload::IppPayload::new", "ipp::payload::IppPayload::new_async") and path.endswith("::into_payload")
                            run.ob(rule, "%s: source handed over unchanged" % path.split("::", 2)[-1], ok,
                                   "self.inner passed to %s" % c, site(body, n), key="%s|%s|source-arg|%s" % (rule, path, c))
            for n in walk(body["body"]):
                if n.get("_seen_inner") and not n.get("_consumed"):
                    # remaining uses: plain move-out in into_inner
                    ok = path.endswith("::into_inner")
                    run.ob(rule, "%s: source moved out" % path.split("::", 2)[-1], ok, "self.inner used as a value in %s" % path, site(body, n),
                           key="%s|%s|source-value" % (rule, path))
            for n in walk(body["body"]):
                n.pop("_seen_inner", None)
                n.pop("_consumed", None)
            # constructor stores the source as it is
            if path.endswith("::new"):
                ps = paths_of(body)
                r = ps[0].ret
                ok = r[0] == "ctor" and isinstance(r[2], dict) and r[2].get("inner") == ("var", body["params"][0].get("name"))
                run.ob(rule, "%s stores the source unwrapped" % path.split("::", 2)[-1], ok, tshow(r)[:120], site(body), key="%s|%s|new" % (rule, path))
        # length arguments are u16 widenings: on every path (helpers introduced later inlined) the length handed to read_bytes / read_string is
        # `x as usize` / usize::from(x) of a read_u16 result, or the function's own length parameter handed on
        for path, body in non_test_bodies(F, [rty]):
            if path not in known_functions() and body.get("vis") != "Public":
                continue            # judged inlined into its callers
            try:
                ps = paths_of(body)
            except TooManyPaths:
                run.ob(rule, "%s: element length is a u16 widening" % path.split("::", 2)[-1], False, "too many paths", site(body), key="%s|%s|length" % (rule, path))
                continue
            params = {reviewed_param_name(path, i, p.get("name")) for i, p in enumerate(body.get("params", [])) if p.get("k") == "bind"}
            seen = set()
            for p in ps:
                for t in p.trace:
                    if not (is_call(t) and t[1].startswith(rty) and t[1].endswith(("::read_bytes", "::read_string")) and len(t[2]) >= 2):
                        continue
                    if id(t[3]) in seen:
                        continue
                    seen.add(id(t[3]))
                    a = t[2][1]
                    wid = False
                    if isinstance(a, tuple) and a[0] == "cast" and a[1] == "usize":
                        a, wid = a[2], True
                    elif is_call(a, "std::convert::From::from", "std::convert::Into::into") and len(a[2]) == 1:
                        a, wid = a[2][0], True
                    src = a
                    while isinstance(src, tuple) and src[0] in ("ok?", "await"):
                        src = src[1]
                    ok = wid and is_call(src) and src[1] == rty + "::<R>::read_u16"
                    is_fwd = (not wid) and isinstance(a, tuple) and a[0] == "var" and a[1] in params
                    run.ob(rule, "%s: element length is a u16 widening" % path.split("::", 2)[-1], ok or is_fwd,
                           "length argument %s (a length that is not the widened 16-bit length field lets one element allocate more than 64 KiB, or reads a different count)" % tshow(t[2][1])[:120],
                           site(body, t[3]), key="%s|%s|length" % (rule, path))
    # forbidden I/O adaptors anywhere in reader.rs / parser.rs
    for path, body in non_test_bodies(F, ["ipp::reader::", "ipp::parser::"]):
        for n in walk(body["body"]):
            c = callee(n)
            if c and c.split("::")[-1] in FORBIDDEN_IO and ("std::io::" in c or "futures_util::" in c or "tokio" in c):
                run.ob(rule, "%s: no partial-read / buffering API" % path.split("::", 2)[-1], False, "call of %s" % c, site(body, n),
                       key="%s|%s|forbidden|%s" % (rule, path, c))
            ty = n.get("ty") or ""
            if n.get("k") in ("call", "mcall", "struct") and any(t in ty.split("<")[0] + "<" or ty.startswith(("std::io::" + t, "futures_util::io::" + t)) for t in ("BufReader", "Take", "Chain")):
                if ty.startswith(("std::io::BufReader", "futures_util::io::BufReader", "std::io::Take", "futures_util::io::Take", "std::io::Chain", "futures_util::io::Chain")):
                    run.ob(rule, "%s: no buffering adaptor" % path.split("::", 2)[-1], False, "expression of type %s" % ty[:80], site(body, n),
                           key="%s|%s|adaptor" % (rule, path))
    return n_sites


def exact_buffer(body, buf):
    """buf = `&mut <local>`; the local is `[0u8; N]` consumed by from_be_bytes / [0], or `vec![0; len]` with len a parameter."""
    x = buf
    while x.get("k") in ("ref", "un"):
        x = unwrap(x["e"])
    while x.get("k") == "mcall" and (x.get("callee") or "").split("::")[-1] in ("as_mut_slice", "as_mut", "borrow_mut", "deref_mut") and not x.get("args"):
        x = unwrap(x["recv"])       # `buf.as_mut_slice()` is the whole buffer, like `&mut buf`
        while x.get("k") in ("ref", "un"):
            x = unwrap(x["e"])
    if x.get("k") == "call" and (x.get("callee") or "") in ("std::slice::from_mut", "core::slice::from_mut") and x.get("args"):
        y = unwrap(x["args"][0])
        while y.get("k") in ("ref", "un"):
            y = unwrap(y["e"])
        if y.get("k") == "path" and y["res"].get("r") == "local" and str(y.get("ty")) == "u8":
            return True, "one-byte buffer slice::from_mut(&mut u8)"
    if x.get("k") == "index" and "RangeFull" in (unwrap(x["i"]).get("ty") or ""):
        x = unwrap(x["b"])          # `&mut buf[..]` is the whole buffer
        while x.get("k") in ("ref", "un"):
            x = unwrap(x["e"])
    if not (x.get("k") == "path" and x["res"].get("r") == "local"):
        return False, "buffer argument %s is not a local buffer" % show(buf)
    lid = x["res"]["id"]
    init = None
    for n in walk(body["body"]):
        if n.get("k") == "let" and n["pat"].get("k") == "bind" and n["pat"].get("id") == lid and "init" in n:
            init = unwrap(n["init"])
    if init is None:
        return False, "no initialiser for the buffer"
    if init.get("k") == "repeat":
        ty = init.get("ty", "")
        if re.match(r"^\[u8; [A-Z][A-Za-z0-9_]*\]$", ty) and "::tests::" not in body["def"]:
            # a const-generic helper `read_array::<N>()`: the size is the caller's; every instantiation must be one of the wire widths
            return True, "const-generic buffer %s (instantiations checked at the call sites by their result types)" % ty
        return ty in ("[u8; 1]", "[u8; 2]", "[u8; 4]"), "fixed buffer %s" % ty
    if init.get("k") == "call" and init.get("callee") == "std::vec::from_elem":
        ln = unwrap(init["args"][1])
        ok = ln.get("k") == "path" and ln["res"].get("r") == "local" and ln["res"]["name"] in [p.get("name") for p in body.get("params", [])]
        return ok, "vec![0; %s]" % show(ln)
    return False, "unrecognised buffer initialiser %s" % show(init)[:80]


# ---------------------------------------------------------------------------------------------
def pattern_matches(pat, v):
    """Does the (integer) pattern match value v? -> True/False/None(unknown)."""
    k = pat["k"]
    if k in ("wild",):
        return True
    if k == "bind":
        return pattern_matches(pat["sub"], v) if "sub" in pat else True
    if k == "pexpr" and pat["e"].get("k") == "lit" and isinstance(pat["e"]["v"], int):
        return v == (-pat["e"]["v"] if pat["e"].get("neg") else pat["e"]["v"])
    if k == "prange":
        lo, hi = pat.get("lo"), pat.get("hi")
        if (lo and lo.get("k") != "lit") or (hi and hi.get("k") != "lit"):
            return None
        ok = True
        if lo:
            ok = ok and v >= lo["v"]
        if hi:
            ok = ok and (v <= hi["v"] if "Included" in pat.get("end", "") else v < hi["v"])
        return ok
    if k == "por":
        rs = [pattern_matches(p, v) for p in pat["pats"]]
        if any(r is True for r in rs):
            return True
        return None if any(r is None for r in rs) else False
    return None


def _tag_value(t, rd_tag):
    """Is the term the dispatched byte (the result of read_tag, possibly cast / awaited / unwrapped)?"""
    while isinstance(t, tuple) and (t[0] in ("ok?", "await") or t[0] == "cast"):
        t = t[1] if t[0] != "cast" else t[2]
    return is_call(t) and t[1].endswith("::read_tag")


def _eval_num(t, v, F):
    if _tag_value(t, None):
        return v
    if isinstance(t, tuple) and t[0] == "lit" and isinstance(t[1], int) and not isinstance(t[1], bool):
        return t[1]
    if isinstance(t, tuple) and t[0] == "cast":
        return _eval_num(t[2], v, F)
    if isinstance(t, tuple) and t[0] == "def":
        c = F.consts.get(t[1])
        return c.get("value") if (c and isinstance(c.get("value"), int)) else None
    if isinstance(t, tuple) and t[0] == "ctor" and not t[2]:
        for adt in F.adts.values():
            for vr in adt.get("variants", []):
                if vr.get("path") == t[1] and vr.get("discr") is not None:
                    return vr["discr"]
    return None


def _eval_tag_cond(t, v, F):
    """Truth of a condition term for tag byte v; None = not understood; 'n/a' = does not depend on the tag."""
    if is_call(t, "<is_err>") or not any(_tag_value(x, None) for x in subterms(t)):
        return "n/a"
    for x in subterms(t):
        # a test on something computed *from* the tag by the crate (parse_delimiter(tag) == End) is not a test of the byte itself
        if is_call(x) and not x[1].endswith("::read_tag") and x[1].split("::")[-1] not in ("contains", "new") and not x[1].startswith(("core::", "std::ops::", "std::cmp::")):
            return "n/a"
    if isinstance(t, tuple) and t[0] == "lit" and isinstance(t[1], bool):
        return t[1]
    if isinstance(t, tuple) and t[0] == "un" and t[1] == "Not":
        r = _eval_tag_cond(t[2], v, F)
        return (not r) if isinstance(r, bool) else r
    if isinstance(t, tuple) and t[0] == "bin" and t[1] in ("And", "Or", "BitAnd", "BitOr"):
        a, b = _eval_tag_cond(t[2], v, F), _eval_tag_cond(t[3], v, F)
        if not isinstance(a, bool) or not isinstance(b, bool):
            return None
        return (a and b) if t[1] in ("And", "BitAnd") else (a or b)
    if isinstance(t, tuple) and t[0] == "bin" and t[1] in ("Eq", "Ne", "Lt", "Le", "Gt", "Ge"):
        a, b = _eval_num(t[2], v, F), _eval_num(t[3], v, F)
        if a is None or b is None:
            return None
        return {"Eq": a == b, "Ne": a != b, "Lt": a < b, "Le": a <= b, "Gt": a > b, "Ge": a >= b}[t[1]]
    if is_call(t) and t[1].split("::")[-1] == "contains" and len(t[2]) == 2 and is_call(t[2][0]) and t[2][0][1].split("::")[-1] == "new" and len(t[2][0][2]) == 2:
        lo, hi, x = _eval_num(t[2][0][2][0], v, F), _eval_num(t[2][0][2][1], v, F), _eval_num(t[2][1], v, F)
        if None in (lo, hi, x):
            return None
        if "RangeInclusive" in t[2][0][1]:
            return lo <= x <= hi
        return None
    if is_call(t) and t[1].split("::")[-1] == "contains" and len(t[2]) == 2 and isinstance(t[2][0], tuple) and t[2][0][0] == "ctor" and isinstance(t[2][0][2], dict) and \
            t[2][0][1].endswith("::Range") and set(t[2][0][2]) == {"start", "end"}:
        lo, hi, x = _eval_num(t[2][0][2]["start"], v, F), _eval_num(t[2][0][2]["end"], v, F), _eval_num(t[2][1], v, F)
        return None if None in (lo, hi, x) else (lo <= x < hi)
    return None


def dispatch_by_paths(run, F, pty, fn, b, rule):
    """The partition of the 256 tag bytes read off the paths of one iteration of the drive loop: for every byte, the paths whose tag tests
    hold for it must all do the same thing - hand it to parse_delimiter (0x01-0x05), read a name and a value (0x10-0x4a), or reject it
    with InvalidTag(that byte)."""
    short = pty.split("::")[-1]
    steps, seen = [], set()
    try:
        ps = paths_of(b)
    except TooManyPaths:
        run.ob(rule, "%s: tag dispatch found" % short, False, "too many paths", site(b), key="%s|%s|no-dispatch" % (rule, fn))
        return 0
    for p in ps:
        for i, t in enumerate(p.trace):
            if is_call(t, "<loop>", "<for>") and len(t) > 3 and isinstance(t[3], dict):
                if id(t[3]) not in seen:
                    seen.add(id(t[3]))
                    for q in t[3].get("paths", []) + t[3].get("breaks", []):
                        steps.append((q.conds, q.trace, q.ret, "fall"))
                if p.kind in ("try", "return", "fall"):
                    steps.append((p.conds, p.trace[i + 1:], p.ret, p.kind))
    steps = [s_ for s_ in steps if any(is_call(t) and t[1].endswith("::read_tag") for t in s_[1])]
    if not steps:
        run.ob(rule, "%s: tag dispatch found" % short, False, "no iteration path reads a tag", site(b), key="%s|%s|no-dispatch" % (rule, fn))
        return 0

    def cls(st):
        conds, trace, ret, kind = st
        names = [t[1] for t in trace if is_call(t)]
        if any(x.endswith("ParserState::parse_delimiter") for x in names):
            return "delimiter"
        if any(x.endswith(("::read_name", "::read_value", "ParserState::parse_value")) or x.endswith("Parser::<R>::parse_value") for x in names):
            return "value"
        if isinstance(ret, tuple) and ret[0] == "ctor" and ret[1].endswith("::Err") and ret[2] and isinstance(ret[2][0], tuple) and ret[2][0][0] == "ctor" and \
                ret[2][0][1] == "ipp::parser::IppParseError::InvalidTag":
            return "reject" if (ret[2][0][2] and _tag_value(ret[2][0][2][0], None)) else "reject-other-byte"
        if kind == "try" and isinstance(ret, tuple) and ret[0] == "err?" and is_call(ret[1] if ret[1][0] != "await" else ret[1][1]) and \
                (ret[1] if ret[1][0] != "await" else ret[1][1])[1].endswith("::read_tag"):
            return "io-error"
        return "other"
    table, unknown = {}, None
    for v in range(256):
        got = set()
        for st in steps:
            holds = True
            for c in st[0]:
                if c[0] in ("if", "guard"):
                    r = _eval_tag_cond(c[1], v, F)
                    if r == "n/a":
                        continue
                    if r is None:
                        unknown = cshow(c)
                        break
                    if r != bool(c[2]):
                        holds = False
                        break
                elif c[0] == "match" and _tag_value(c[1], None):
                    r = pattern_matches(c[4], v)
                    if r is None:
                        unknown = cshow(c)
                        break
                    if c[3] is False:
                        r = not r
                    elif len(c) > 8 and c[8]:
                        er = [pattern_matches(q, v) for q in c[8]]
                        if any(x is None for x in er):
                            unknown = cshow(c)
                            break
                        r = r and not any(er)
                    if not r:
                        holds = False
                        break
            if unknown:
                break
            if holds:
                k_ = cls(st)
                if k_ != "io-error":
                    got.add(k_)
        if unknown:
            break
        table[v] = got
    if unknown:
        run.ob(rule, "%s: dispatch patterns are literal ranges" % short, False,
               "a tag test on an iteration path is not understood (%s): the partition of the 256 tag bytes cannot be read off" % unknown[:160], site(b),
               key="%s|%s|unreadable" % (rule, fn))
        return 0
    want = {v: ("delimiter" if 1 <= v <= 5 else ("value" if 0x10 <= v <= 0x4a else "reject")) for v in range(256)}
    bad = [(hex(v), sorted(table[v]), want[v]) for v in range(256) if table[v] != {want[v]}]
    run.ob(rule, "%s: 0x01-0x05 delimiter, 0x10-0x4a value, everything else rejected with its own byte" % short, not bad,
           "%d bytes classified differently, e.g. %s (byte, got, expected)" % (len(bad), bad[:4]), site(b), key="%s|%s|partition" % (rule, fn))
    for enum, k_ in (("ipp::model::DelimiterTag", "delimiter"), ("ipp::model::ValueTag", "value")):
        adt = F.adts.get(enum)
        if adt:
            out = [vr["name"] for vr in adt["variants"] if table.get(vr["discr"]) != {k_}]
            run.ob(rule, "%s: every %s is dispatched as %s" % (short, enum.split("::")[-1], k_), not out, "variants outside: %s" % out, site(b),
                   key="%s|%s|enum-%s" % (rule, fn, k_))
    return 256


def r_dispatch(run, F, rule="R-DISPATCH"):
    """Partition of all 256 tag bytes by the drive loops' match."""
    n = 0
    for pty in PARSERS:
        if pty.endswith("AsyncIppParser") and not async_on(F):
            continue
        fn = pty + "::<R>::parse_header_attributes"
        b = F.body(fn)
        if b is None:
            run.anchor_lost(rule, fn)
            continue
        # the match whose scrutinee reads the tag
        m = None
        tag_locals = set()
        for x in walk(b["body"]):
            if x.get("k") == "let" and x["pat"].get("k") == "bind" and "init" in x and any((callee(y) or "").endswith("::read_tag") for y in walk(x["init"])):
                tag_locals.add(x["pat"]["id"])
        for x in walk(b["body"]):
            if x.get("k") == "match" and x.get("src") == "normal":
                sc = unwrap(x["scrut"])
                direct = any((callee(y) or "").endswith("::read_tag") for y in walk(x["scrut"]))
                via_let = sc.get("k") == "path" and sc["res"].get("r") == "local" and sc["res"]["id"] in tag_locals
                if direct or via_let:
                    m = x
        if m is None:
            # not written as one match: read the partition off the paths of one iteration instead, byte by byte
            n += dispatch_by_paths(run, F, pty, fn, b, rule)
            continue
        arms = []
        for arm in m["arms"]:
            cs = {callee(y) for y in walk(arm["body"]) if callee(y)}
            if any(c.endswith("ParserState::parse_delimiter") for c in cs):
                cls = "delimiter"
            elif any(c.endswith("::parse_value") for c in cs):
                cls = "value"
            else:
                body = unwrap(arm["body"])
                while body.get("k") in ("blockx", "block"):
                    inner = body["b"] if body["k"] == "blockx" else body
                    if inner.get("stmts") and not inner.get("expr"):
                        body = unwrap(inner["stmts"][-1].get("e", {}))
                    elif inner.get("expr"):
                        body = unwrap(inner["expr"])
                    else:
                        break
                cls = "other"
                if body.get("k") == "ret" and "e" in body:
                    r = unwrap(body["e"])
                    if r.get("k") == "call" and (r.get("ctor") or "").endswith("::Err"):
                        e = unwrap(r["args"][0])
                        if e.get("k") == "call" and e.get("ctor") == "ipp::parser::IppParseError::InvalidTag":
                            a = unwrap(e["args"][0])
                            bound = arm["pat"].get("id") if arm["pat"].get("k") == "bind" else None
                            # the byte reported is the one that was dispatched on: the arm's own binding, or the let-bound tag the match reads
                            msc = unwrap(m["scrut"])
                            sc_local = msc["res"].get("id") if (msc.get("k") == "path" and msc.get("res", {}).get("r") == "local") else None
                            same_byte = a.get("k") == "path" and a.get("res", {}).get("r") == "local" and a["res"].get("id") in (bound, sc_local) and a["res"].get("id") is not None
                            cls = "reject" if same_byte else "reject-other-byte"
            arms.append((arm, cls))
        table = {}
        unknown = False
        for v in range(256):
            got = None
            for arm, cls in arms:
                r = pattern_matches(arm["pat"], v)
                if r is None or "guard" in arm:
                    unknown = True
                    got = "?"
                    break
                if r:
                    got = cls
                    break
            table[v] = got
        n += 256
        if unknown:
            run.ob(rule, "%s: dispatch patterns are literal ranges" % pty.split("::")[-1], False,
                   "guarded or non-literal arm in the tag dispatch: the partition of the 256 tag bytes cannot be read off (arms: %s)" % [show(a["pat"]) + (" if .." if "guard" in a else "") for a, _ in arms],
                   site(b, m), key="%s|%s|unreadable" % (rule, fn))
            continue
        want = {v: ("delimiter" if 1 <= v <= 5 else ("value" if 0x10 <= v <= 0x4a else "reject")) for v in range(256)}
        bad = [(hex(v), table[v], want[v]) for v in range(256) if table[v] != want[v]]
        run.ob(rule, "%s: 0x01-0x05 delimiter, 0x10-0x4a value, everything else rejected with its own byte" % pty.split("::")[-1], not bad,
               "%d bytes classified differently, e.g. %s (byte, got, expected)" % (len(bad), bad[:4]), site(b, m), key="%s|%s|partition" % (rule, fn))
        # every enum discriminant falls in its class
        for enum, cls in (("ipp::model::DelimiterTag", "delimiter"), ("ipp::model::ValueTag", "value")):
            adt = F.adts.get(enum)
            if adt:
                out = [v["name"] for v in adt["variants"] if table.get(v["discr"]) != cls]
                run.ob(rule, "%s: every %s is dispatched as %s" % (pty.split("::")[-1], enum.split("::")[-1], cls), not out, "variants outside: %s" % out,
                       site(b, m), key="%s|%s|enum-%s" % (rule, fn, cls))
    # parse_delimiter rejects unknown delimiter bytes with the byte
    pd = F.body("ipp::parser::ParserState::parse_delimiter")
    if pd is None:
        run.anchor_lost(rule, "ipp::parser::ParserState::parse_delimiter")
    else:
        from .terms import opt_polarity
        ok = False
        why = "no early error exit"
        bad_tag = ("ctor", "ipp::parser::IppParseError::InvalidTag", [("var", "tag")])
        for p in paths_of(pd):
            rejected = False
            if p.kind == "try":
                t = p.ret[1]
                why = tshow(t)[:160]
                # from_u8(tag).ok_or(InvalidTag(tag))?
                rejected = is_call(t, "std::option::Option::<T>::ok_or") and is_call(t[2][0], "num_traits::FromPrimitive::from_u8") and t[2][0][2][0] == ("var", "tag") and t[2][1] == bad_tag
            elif p.ret[0] == "ctor" and p.ret[1].endswith("::Err") and p.ret[2] == [bad_tag]:
                # let Some(d) = from_u8(tag) else { return Err(InvalidTag(tag)) }   /  match .. { None => return Err(..) }
                why = " && ".join(cshow(c) for c in p.conds)[:160]
                rejected = any(c[0] == "match" and is_call(c[1], "num_traits::FromPrimitive::from_u8") and c[1][2][0] == ("var", "tag") and opt_polarity(c) is False for c in p.conds)
            if rejected:
                # nothing happened before the rejection
                ok = not [c for c in p.trace if is_call(c) and c[1].startswith("ipp::") and "FromPrimitive" not in c[1]]
        # .. and what it returns on success is the delimiter it decoded from the byte it was given: the drive loops stop on `== EndOfAttributes`
        for p in paths_of(pd):
            if p.kind in ("fall", "return") and p.ret[0] == "ctor" and p.ret[1].endswith("::Ok") and p.ret[2]:
                v = p.ret[2][0]
                while isinstance(v, tuple) and v[0] == "ok?":
                    v = v[1]
                if is_call(v, "std::option::Option::<T>::ok_or") and v[2]:
                    v = v[2][0]
                if isinstance(v, tuple) and v[0] == "proj" and str(v[2]).startswith("Some."):
                    v = v[1]
                ok_ret = is_call(v, "num_traits::FromPrimitive::from_u8") and v[2] and v[2][0] == ("var", "tag")
                run.ob(rule, "parse_delimiter returns the delimiter decoded from its tag byte", ok_ret,
                       "returns %s: the drive loop compares this value with EndOfAttributes to stop reading - a stale or other value makes it read on into the document (or stop early)" % tshow(p.ret)[:160],
                       site(pd), key="%s|parse_delimiter|returns-decoded" % rule)
        run.ob(rule, "parse_delimiter rejects an unknown delimiter with InvalidTag(tag) before touching the state", ok, why, site(pd),
               key="%s|parse_delimiter|reject" % rule)
    return n


# ---------------------------------------------------------------------------------------------
def reader_call(t):
    return is_call(t) and any(x == ("field", ("var", "self"), "reader") for a in t[2] for x in subterms(a))


def r_stop_onlyexit(run, F, rule_stop="R-STOP", rule_exit="R-ONLYEXIT"):
    for pty in PARSERS:
        if pty.endswith("AsyncIppParser") and not async_on(F):
            continue
        short = pty.split("::")[-1]
        fn = pty + "::<R>::parse_header_attributes"
        b = F.body(fn)
        if b is None:
            run.anchor_lost(rule_exit, fn)
            continue
        paths = paths_of(b)
        oks = [p for p in paths if p.kind in ("fall", "return") and not (p.ret[0] == "ctor" and p.ret[1].endswith("::Err"))]
        run.ob(rule_exit, "%s: exactly one successful exit" % short, len(oks) == 1, "%d non-error exits: %s" % (len(oks), [tshow(p.ret)[:60] for p in oks]), site(b),
               key="%s|%s|ok-count" % (rule_exit, fn))
        for p in oks:
            last = p.conds[-1] if p.conds else None
            ok_last = last is not None and last[0] == "if" and last[2] is True and last[1][0] == "bin" and last[1][1] == "Eq" and \
                ("ctor", END, []) in (last[1][2], last[1][3]) and any(is_call(x, "ipp::parser::ParserState::parse_delimiter") for x in subterms(last[1]))
            run.ob(rule_exit, "%s: success only through the end-of-attributes delimiter" % short, ok_last,
                   "last condition before Ok is %s" % (cshow(last)[:200] if last else None), site(b), key="%s|%s|end-edge" % (rule_exit, fn))
            r = p.ret
            hv = r[2][0][1] if (r[0] == "ctor" and r[1].endswith("::Ok") and r[2] and r[2][0][0] == "ok?") else None
            while isinstance(hv, tuple) and hv[0] == "await":
                hv = hv[1]
            hdr_ok = hv is not None and is_call(hv) and hv[1].endswith("::read_header")
            run.ob(rule_exit, "%s: returns the header that was read" % short, hdr_ok, tshow(r)[:120], site(b), key="%s|%s|header" % (rule_exit, fn))
            # R-STOP: nothing is read after the end-of-attributes edge
            n = len(p.conds)
            after = [t for t in p.trace if is_call(t) and len(t) > 4 and t[4] >= n and reader_call(t)]
            run.ob(rule_stop, "%s: no read after the end-of-attributes tag" % short, not after, "reads after the end tag: %s" % [tshow(t)[:100] for t in after], site(b),
                   key="%s|%s|read-after-end" % (rule_stop, fn))
        # the loop can only be left through that break (or an error)
        for p in paths:
            for t in p.trace:
                if is_call(t, "<loop>"):
                    brks = t[3].get("breaks", [])
                    # one way out that is not an error: a single `break` (success returned after the loop) or no break and the single Ok return inside it
                    run.ob(rule_exit, "%s: one break in the drive loop" % short, len(brks) == 1 or (len(brks) == 0 and len(oks) == 1), "%d breaks" % len(brks), site(b),
                           key="%s|%s|breaks" % (rule_exit, fn))
                    # R-LOOP for the input loop: every iteration that loops again has consumed a tag
                    for bp in t[3].get("paths", []):
                        consumed = any(is_call(c) and c[1].endswith("::read_tag") for c in bp.trace)
                        run.ob("R-LOOP", "%s: every iteration of the drive loop consumes a tag byte" % short, consumed,
                               "an iteration can complete without reading: %s" % " && ".join(cshow(c) for c in bp.conds)[:200], site(b),
                               key="R-LOOP|%s|no-progress" % fn)
                    break
        # the public entry points
        for entry in ("parse", "parse_parts"):
            eb = F.body("%s::<R>::%s" % (pty, entry))
            if eb is None:
                run.anchor_lost(rule_stop, "%s::%s" % (pty, entry))
                continue
            # one entry point written in terms of the other (parse through parse_parts) is judged with that one inlined
            sib = {"%s::<R>::%s" % (pty, o): F.body("%s::<R>::%s" % (pty, o)) for o in ("parse", "parse_parts") if o != entry and F.body("%s::<R>::%s" % (pty, o)) is not None}
            for p in paths_of(eb, inline=sib):
                if p.kind == "try" or (p.ret[0] == "ctor" and p.ret[1].endswith("::Err") and p.ret[2] and is_call(p.ret[2][0], "<from-err>")):
                    continue
                r = p.ret
                hdr = None
                for c in p.conds:
                    if c[0] == "if" and is_call(c[1], "<is_err>") and c[2] is False:
                        inner = c[1][2][0]
                        while isinstance(inner, tuple) and inner[0] == "await":
                            inner = inner[1]
                        if is_call(inner) and inner[1].endswith("::parse_header_attributes"):
                            hdr = inner
                run.ob(rule_exit, "%s::%s: Ok only after parse_header_attributes succeeded" % (short, entry), hdr is not None, " && ".join(cshow(c) for c in p.conds)[:160],
                       site(eb), key="%s|%s::%s|gate" % (rule_exit, pty, entry))
                after = [t for t in p.trace if reader_call(t) and not (is_call(t) and t[1].endswith("::into_payload"))]
                run.ob(rule_stop, "%s::%s: the reader is not used after the attributes" % (short, entry), not after, [tshow(t)[:80] for t in after], site(eb),
                       key="%s|%s::%s|reader-use" % (rule_stop, pty, entry))
                rd = ("field", ("var", "self"), "reader")
                if r[0] == "ctor" and r[1].endswith("::Ok") and r[2]:
                    v = r[2][0]
                    if entry == "parse":
                        pl = v[2].get("payload") if (v[0] == "ctor" and isinstance(v[2], dict)) else None
                        ok = pl is not None and is_call(pl) and pl[1].endswith("::into_payload") and pl[2][0] == rd and \
                            v[2].get("attributes") == ("field", ("field", ("var", "self"), "state"), "attributes")
                        run.ob(rule_stop, "%s::parse: payload is the reader's remaining stream, attributes are the state's" % short, ok, tshow(v)[:200], site(eb),
                               key="%s|%s::parse|result" % (rule_stop, pty))
                    else:
                        ok = v[0] == "tuple" and len(v[1]) == 3 and v[1][2] == rd and v[1][1] == ("field", ("field", ("var", "self"), "state"), "attributes")
                        run.ob(rule_stop, "%s::parse_parts: hands back the reader itself" % short, ok, tshow(v)[:200], site(eb), key="%s|%s::parse_parts|result" % (rule_stop, pty))
    # into_payload / into_inner move the source
    for rty in reader_types(F):
        for name, want in (("into_inner", None), ("into_payload", "ipp::payload::IppPayload::new" + ("_async" if rty.endswith("AsyncIppReader") else ""))):
            b = F.body("%s::<R>::%s" % (rty, name))
            if b is None:
                run.anchor_lost(rule_stop, "%s::%s" % (rty, name))
                continue
            ii = F.body("%s::<R>::into_inner" % rty)
            r = paths_of(b, inline={"%s::<R>::into_inner" % rty: ii} if (ii is not None and name != "into_inner") else None)[0].ret     # into_payload through into_inner: inlined
            src = ("field", ("var", "self"), "inner")
            ok = (r == src) if want is None else (is_call(r, want) and r[2][0] == src)
            run.ob(rule_stop, "%s::%s hands over the source unchanged" % (rty.split("::")[-1], name), ok, tshow(r)[:120], site(b), key="%s|%s::%s" % (rule_stop, rty, name))


# ---------------------------------------------------------------------------------------------
ERR_TYPES = ("std::io::Error", "ipp::parser::IppParseError")
SWALLOW = {"ok", "unwrap_or", "unwrap_or_default", "unwrap_or_else", "is_ok", "is_err", "err", "unwrap", "expect", "is_ok_and", "is_err_and", "map_or", "map_or_else", "or",
           "or_else", "iter", "into_iter"}
PASS = {"map", "and_then", "inspect", "inspect_err"}


def result_err(ty):
    if not ty or not ty.startswith("std::result::Result<"):
        return None
    for e in ERR_TYPES:
        if ty.rstrip(">").endswith(e):
            return e
    return None


def r_propagate(run, F, rule="R-PROPAGATE"):
    """Every fallible call in reader.rs / parser.rs is propagated."""
    n_sites = 0
    for path, body in non_test_bodies(F, ["ipp::reader::", "ipp::parser::"]):
        root = body["body"]
        # walk with consumer context
        stack = [(root, "tail")]
        uses = {}       # local id -> contexts in which the local is used
        pending = []    # fallible results bound by a plain `let x = ..;` - judged by what happens to x
        while stack:
            n, ctx = stack.pop()
            if not isinstance(n, dict):
                continue
            k = n.get("k")
            if k == "path" and n.get("res", {}).get("r") == "local":
                uses.setdefault(n["res"].get("id"), []).append(ctx)
            if isinstance(ctx, tuple) and ctx[0] == "let-bound":
                if (k in ("call", "mcall") and result_err(n.get("ty")) and not n.get("ctor")) or (k == "match" and n.get("src") == "await" and result_err(n.get("ty"))):
                    pending.append((ctx[1], n))
                    n["_bound_to"] = ctx[1]
                ctx = "let"
            if k in ("call", "mcall") and result_err(n.get("ty")) and not n.get("ctor") and not (n.get("exp") and any(e.split("::")[-1] in ("trace", "error", "debug", "info", "warn") for e in n["exp"])):
                c = callee(n) or ""
                if not c.startswith("std::ops::") and not c.endswith("::from_residual"):
                    n_sites += 1
                    ok = ctx in ("try", "tail", "pass") or "_bound_to" in n
                    run.ob(rule, "%s: result of %s is propagated" % (path.split("::", 2)[-1], c.split("::")[-1]), ok,
                           "the %s of %s is consumed by `%s` instead of `?` / return (an I/O or parse error can be swallowed)" % (n.get("ty", "")[:50], c, ctx),
                           site(body, n), key="%s|%s|%s|%s" % (rule, path, c.split("::")[-1], ctx))
            # children with their contexts
            if k == "match" and n.get("src") == "try":
                sc = unwrap(n["scrut"])
                inner = sc["args"][0] if sc.get("k") == "call" and sc.get("args") else sc
                stack.append((inner, "try"))
                continue
            if k == "match" and n.get("src") == "await":
                sc = unwrap(n["scrut"])
                inner = sc["args"][0] if sc.get("k") == "call" and sc.get("args") else sc
                if result_err(n.get("ty")):
                    # the awaited value is the fallible result of the async call
                    c = callee(unwrap(inner)) or "await"
                    n_sites += 1
                    ok = ctx in ("try", "tail", "pass") or "_bound_to" in n
                    run.ob(rule, "%s: result of %s.await is propagated" % (path.split("::", 2)[-1], c.split("::")[-1]), ok,
                           "the %s of %s.await is consumed by `%s` instead of `?` / return" % (n.get("ty", "")[:50], c, ctx),
                           site(body, n), key="%s|%s|%s|%s" % (rule, path, c.split("::")[-1], ctx))
                stack.append((inner, "awaited"))
                continue
            if k == "match":
                # a hand-written match on a Result: every Err arm must return an Err
                scr = unwrap(n["scrut"])
                if result_err(scr.get("ty")):
                    bad = False
                    for arm in n["arms"]:
                        if "Err" in show(arm["pat"]) or arm["pat"].get("k") in ("wild", "bind"):
                            txt = show(arm["body"])
                            if "Err" not in txt:
                                bad = True
                    stack.append((n["scrut"], "pass" if not bad else "match-without-error-arm"))
                else:
                    stack.append((n["scrut"], "scrutinee"))
                for arm in n["arms"]:
                    if "guard" in arm:
                        stack.append((arm["guard"], "guard"))
                    stack.append((arm["body"], ctx))
                continue
            if k == "mcall":
                name = n["name"]
                rctx = "pass" if (name in PASS and ctx in ("try", "tail", "pass")) else (name if name in SWALLOW else "receiver")
                # a Result-typed receiver consumed by a non-propagating method is the swallow
                stack.append((n["recv"], rctx if result_err(unwrap(n["recv"]).get("ty")) or True else "receiver"))
                for a in n["args"]:
                    ax = unwrap(a)
                    if name in ("and_then", "or_else") and ctx in ("try", "tail", "pass") and ax.get("k") == "closure":
                        # `x.and_then(|v| f(v))`: what the closure returns is what and_then returns - propagated when and_then's result is
                        stack.append((ax["body"], "pass"))
                    else:
                        stack.append((a, "argument"))
                continue
            if k == "call":
                for a in n.get("args", []):
                    ax = unwrap(a)
                    stack.append((a, "pass" if (n.get("ctor") or "").endswith(("::Ok", "::Some")) and ctx in ("tail", "try", "pass") and False else "argument"))
                continue
            if k == "blockx":
                stack.append((n["b"], ctx))
                continue
            if k == "block":
                for s in n["stmts"]:
                    if s["k"] == "semi":
                        stack.append((s["e"], "discarded"))
                    elif s["k"] == "expr":
                        stack.append((s["e"], "discarded"))
                    elif s["k"] == "let":
                        if "init" in s:
                            pk = s["pat"].get("k")
                            plain = pk == "bind" and "sub" not in s["pat"] and "Mut" not in str(s["pat"].get("mode", "")) and "els" not in s
                            stack.append((s["init"], "let _" if pk == "wild" else (("let-bound", s["pat"]["id"]) if plain else "let")))
                        if "els" in s:
                            stack.append((s["els"], "discarded"))
                if "expr" in n:
                    stack.append((n["expr"], ctx))
                continue
            if k == "if":
                c = unwrap(n["c"])
                if c.get("k") == "letx":
                    stack.append((c["init"], "if-let"))
                else:
                    stack.append((n["c"], "condition"))
                stack.append((n["t"], ctx))
                if "e" in n:
                    stack.append((n["e"], ctx))
                continue
            if k == "ret":
                if "e" in n:
                    stack.append((n["e"], "tail"))
                continue
            if k == "closure":
                b2 = n["body"]
                # the coroutine closure of an async fn is the function's own body
                stack.append((b2, "tail" if str(n.get("ckind", "")).startswith("coroutine") else "closure"))
                continue
            if k == "loop":
                stack.append((n["body"], "discarded"))
                continue
            if k == "yield":
                continue
            for ch in (n.get("e"), n.get("a"), n.get("b"), n.get("l"), n.get("r"), n.get("i")):
                if isinstance(ch, dict):
                    stack.append((ch, "operand"))
            for lst in (n.get("es"), n.get("fields")):
                if isinstance(lst, list):
                    for x in lst:
                        stack.append((x.get("e", x) if isinstance(x, dict) else x, "operand"))
        # `let r = fallible(); ... r` / `r?` / `return r`: the binding is a temporary for the propagated result
        for lid, n in pending:
            n.pop("_bound_to", None)
            ctxs = uses.get(lid, [])
            ok = bool(ctxs) and all(c in ("try", "tail", "pass") for c in ctxs)
            c = callee(n) or (callee(unwrap(unwrap(n["scrut"])["args"][0])) if n.get("k") == "match" and unwrap(n["scrut"]).get("args") else "") or "await"
            run.ob(rule, "%s: let-bound result of %s is propagated" % (path.split("::", 2)[-1], c.split("::")[-1]), ok,
                   "the fallible result of %s is bound by `let` and then used as %s: not (only) propagated with `?` / returned (an I/O or parse error can be swallowed)" % (c, ctxs or "nothing"),
                   site(body, n), key="%s|%s|%s|let" % (rule, path, c.split("::")[-1]))
    return n_sites


def r_errwrap(run, F, rule="R-ERRWRAP"):
    """From<io::Error> / From<IppParseError> conversions wrap the source unchanged; no map_err in the parse cone."""
    wanted = [("ipp::parser::IppParseError", "std::io::Error", "ipp::parser::IppParseError::IoError"),
              ("ipp::error::IppError", "std::io::Error", "ipp::error::IppError::IoError"),
              ("ipp::error::IppError", "ipp::parser::IppParseError", "ipp::error::IppError::ParseError")]
    for ty, src, variant in wanted:
        found = None
        for path, body in F.hir.items():
            if body.get("impl_self") == ty and body.get("impl_trait") == "std::convert::From" and path.endswith("::from") and body.get("inputs") == [src]:
                found = body
        if found is None:
            run.anchor_lost(rule, "From<%s> for %s" % (src, ty))
            continue
        r = paths_of(found)[0].ret
        pname = found["params"][0].get("name")
        val = None
        if r[0] == "ctor" and r[1] == variant:
            val = (list(r[2].values())[0] if isinstance(r[2], dict) else r[2][0]) if r[2] else None
        run.ob(rule, "From<%s> for %s wraps the source value unchanged" % (src.split("::")[-1], ty.split("::")[-1]), val == ("var", pname),
               "conversion builds %s" % tshow(r)[:120], site(found), key="%s|%s<-%s" % (rule, ty, src))
    for path, body in non_test_bodies(F, ["ipp::reader::", "ipp::parser::"]):
        for n in walk(body["body"]):
            if (callee(n) or "").endswith("Result::<T, E>::map_err"):
                run.ob(rule, "%s: no map_err in the parse cone" % path.split("::", 2)[-1], False,
                       "map_err can replace the I/O error (kind lost): %s" % show(n)[:100], site(body, n), key="%s|%s|map_err" % (rule, path))


def r_lossy(run, F, rule="R-LOSSY"):
    """Text conversion in the parse cone is lossy, never rejecting."""
    n = 0
    for path, body in non_test_bodies(F, ["ipp::reader::", "ipp::parser::", "ipp::value::IppValue::parse", "ipp::value::get_len_string"]):
        for x in walk(body["body"]):
            c = callee(x)
            if not c:
                continue
            if c in ("std::string::String::from_utf8_lossy",):
                n += 1
                run.ob(rule, "%s: lossy text conversion" % path.split("::", 2)[-1], True)
            elif c in ("std::string::String::from_utf8", "core::str::from_utf8", "std::str::from_utf8", "std::string::String::from_utf8_unchecked", "core::str::from_utf8_unchecked",
                       "std::str::from_utf8_unchecked", "std::string::String::from_utf8_lossy_owned") or "CStr" in c or c.endswith("::utf8_chunks"):
                run.ob(rule, "%s: no rejecting / unchecked text conversion" % path.split("::", 2)[-1], False,
                       "call of %s: undecodable text must be replaced, not rejected (and never trusted)" % c, site(body, x), key="%s|%s|%s" % (rule, path, c))
    # the names: read_string returns the lossy decoding of exactly the bytes it read (helpers inlined by the path builder)
    from .terms import mentions
    for rd in ("ipp::reader::IppReader::<R>::", "ipp::reader::AsyncIppReader::<R>::"):
        if "Async" in rd and not async_on(F):
            continue
        b = F.body(rd + "read_name")
        if b is None:
            run.anchor_lost(rule, rd + "read_name")
            continue
        rs = F.body(rd + "read_string")         # the private text helper, judged inlined whether or not it exists as a function of its own
        sib_ = {k_: v_ for k_, v_ in ((rd + "read_string", rs), (rd + "read_value", F.body(rd + "read_value"))) if v_ is not None}
        for p in paths_of(b, inline=sib_ or None):
            if p.kind == "try" or (p.ret[0] == "ctor" and p.ret[1].endswith("::Err")):
                continue
            m = mentions(p.ret)
            calls = set(m["callees"]) | {t[1] for t in p.trace if is_call(t)}
            ok = "std::string::String::from_utf8_lossy" in calls and any(c.endswith("::read_bytes") for c in calls)
            n += 1
            run.ob(rule, "%sread_name = lossy text of the bytes read" % rd.split("::")[-2][:-5], ok,
                   "read_name returns %s (names must be decoded with from_utf8_lossy from read_bytes: an undecodable name is replaced, never rejected or re-coded)" % tshow(p.ret)[:160],
                   site(b), key="%s|%sread_string" % (rule, rd))
    return n


def r_reject(run, F, rule="R-REJECT"):
    """Census of explicit rejection sites in the parser / reader / decoder against tables/rejects.json."""
    import os
    from .engine import VERIF, load_json
    from . import guardrules as gr
    T = load_json(os.path.join(VERIF, "tables", "rejects.json"))["allowed"]
    g = gr.call_graph(F)
    pc = gr.cone(g, gr.PARSE_ROOTS)
    core = sorted(f for f in pc if (f.startswith(("ipp::parser::", "ipp::reader::", "ipp::value::IppValue::parse", "ipp::value::get_len_string")) or
                                    (f.startswith("ipp::value::") and F.hir[f]["kind"] == "Fn")) and gr.standalone(F, f))

    def head(t):
        if t[0] == "ctor" and t[2]:
            x = t[2][0]
            if x[0] in ("ctor", "call"):
                return x[1]
            return tshow(x)[:60]
        return tshow(t)[:60]
    n = 0
    for fn in core:
        b = F.hir[fn]
        if b.get("from_expansion"):
            continue
        cen = {}
        for p in paths_of(b):
            r = p.ret
            if p.kind == "try":
                # `helper(x)?` with the helper inlined: an Err the helper *constructs* is a rejection decided here, not an error handed on
                v = r[1] if (isinstance(r, tuple) and r[0] == "err?") else None
                if not (isinstance(v, tuple) and v[0] == "ctor" and v[1].endswith("::Err") and v[2] and
                        not (isinstance(v[2][0], tuple) and (v[2][0][0] == "proj" or (v[2][0][0] == "call" and v[2][0][1] == "<from-err>")))):
                    continue
                r = v
            if r[0] == "ctor" and r[1].endswith("::Err"):
                e0 = r[2][0] if r[2] else None
                if is_call(e0, "<from-err>"):
                    continue        # an inlined helper's `?` exit: a callee's error handed on
                if isinstance(e0, tuple) and e0[0] == "proj" and str(e0[2]).startswith("Err.") and any(c[0] == "match" and (c[1] is e0[1] or c[1] == e0[1]) for c in p.conds):
                    continue        # `Err(e) => Err(e)`: the callee's own error handed on, not a new rejection
                # the deciding test, with integer literals erased: `len != 4`, `len != 8`, .. reached through a per-syntax table are one test
                cen.setdefault(head(r), set()).add(re.sub(r"ipp::model::ValueTag::\w+", "ValueTag::#", re.sub(r"\b\d+\b", "#", " && ".join(cshow(c) for c in p.conds[-1:])))[:160])
        if fn == "ipp::parser::ParserState::parse_value":
            # the member-grouping rejection ("a value before any member name") needs a value in hand: it is decided inside the loop over the
            # collected items, or after an item was positively taken from them - never by the mere absence of items (an empty collection,
            # begCollection directly followed by endCollection, is well-formed and is what the encoder writes for an empty map)
            for p in paths_of(b):
                r = p.ret
                if p.kind == "try" and isinstance(r, tuple) and r[0] == "err?" and isinstance(r[1], tuple) and r[1][0] == "ctor":
                    r = r[1]
                if not (r[0] == "ctor" and r[1].endswith("::Err") and r[2] and isinstance(r[2][0], tuple) and r[2][0][0] == "ctor" and
                        r[2][0][1] == "ipp::parser::IppParseError::InvalidCollection"):
                    continue
                txt = " && ".join(cshow(c) for c in p.conds)
                if "MAX_COLLECTION_DEPTH" in txt or "is_empty(" in txt.split("&&")[-1] or any(
                        c[0] in ("guard", "match", "if") and isinstance(c[1], tuple) and (c[1] == ("var", "ipp_value") or "is_empty" in tshow(c[1]) or
                                                                                         (c[0] == "match" and any(is_call(x, "ipp::value::IppValue::parse") for x in subterms(c[1]))))
                        for c in p.conds[-2:]):
                    continue        # the nesting-depth and marker rejections
                in_hand = any((c[0] == "if" and is_call(c[1], "<in-loop>") and c[2] is True) or
                              (c[0] == "match" and opt_polarity(c) is True and any(isinstance(x, tuple) and (x[0] == "elem" or (x[0] == "call" and str(x[1]).split("::")[-1] in ("next", "first", "get", "split_first", "peek"))) for x in subterms(c[1])))
                              for c in p.conds)
                run.ob(rule, "parse_value: a collection is refused for a misplaced value only with that value in hand", in_hand,
                       "InvalidCollection is returned under [%s] without an item of the collection having been taken: an empty collection would be refused" % txt[-260:],
                       site(b), key="%s|%s|member-rejection-needs-item" % (rule, fn))
        allowed = T.get(fn, {})
        for h, conds in cen.items():
            n += 1
            lim = allowed.get(h, [0, ""])[0]
            run.ob(rule, "%s: rejections with %s are the reviewed ones" % (fn.split("::", 1)[-1], h.split("::")[-1]), len(conds) <= lim,
                   "%d distinct condition(s) lead to Err(%s) here, %d reviewed: %s - an unreviewed rejection may refuse well-formed input" % (len(conds), h, lim, sorted(conds)[:4]),
                   site(b), key="%s|%s|%s" % (rule, fn, h))
    return n


class _Step:
    def __init__(self, kind, trace, conds, ret):
        self.kind, self.trace, self.conds, self.ret = kind, trace, conds, ret


def value_step(F, pty, rd):
    """The paths of 'one value tag' of a front end: the private helper `parse_value(tag)` when it exists, otherwise the paths through the
    drive loop's body that read a name / a value or call the state machine (the helper written out in the loop).
    Returns (body, [paths], predicate telling whether a term is the dispatched tag) or None."""
    fn = pty + "::<R>::parse_value"
    b = F.body(fn)
    if b is not None:
        tagv = ("var", b["params"][1].get("name")) if len(b.get("params", [])) > 1 else None
        return b, [_Step(p.kind, p.trace, p.conds, p.ret) for p in paths_of(b)], (lambda x: x == tagv)
    hb = F.body(pty + "::<R>::parse_header_attributes")
    if hb is None:
        return None
    steps, seen = [], set()
    for p in paths_of(hb):
        for i, t in enumerate(p.trace):
            if is_call(t, "<loop>") and len(t) > 3 and isinstance(t[3], dict):
                if id(t[3]) not in seen:
                    seen.add(id(t[3]))
                    for q in t[3].get("paths", []) + t[3].get("breaks", []):
                        steps.append(_Step("fall", q.trace, q.conds, q.ret))
                if p.kind in ("try", "return"):
                    steps.append(_Step(p.kind, p.trace[i + 1:], p.conds, p.ret))       # the iteration that leaves the function
    mine = ("::read_name", "::read_value", "ParserState::parse_value")
    steps = [q for q in steps if any(is_call(t) and t[1].endswith(mine) for t in q.trace)]
    if not steps:
        return None

    def is_tag(x):
        while isinstance(x, tuple) and x[0] in ("ok?", "await"):
            x = x[1]
        return is_call(x, rd + "read_tag")
    for q in steps:
        q.trace = [t for t in q.trace if not is_call(t, rd + "read_tag")]
    return hb, steps, is_tag


def r_token(run, F, rule="R-TOKEN"):
    """Each value tag is followed by exactly one name element and one value element, whatever the tag: the front ends' parse_value
    reads name then value on every path and hands both, unmodified, to the state machine with the tag it was given."""
    n = 0
    for fn, rd, st in (("ipp::parser::IppParser::<R>::parse_value", "ipp::reader::IppReader::<R>::", "ipp::parser::ParserState::parse_value"),
                       ("ipp::parser::AsyncIppParser::<R>::parse_value", "ipp::reader::AsyncIppReader::<R>::", "ipp::parser::ParserState::parse_value")):
        if "Async" in fn and not async_on(F):
            continue
        vs_ = value_step(F, fn.rsplit("::<R>::", 1)[0], rd)
        if vs_ is None:
            run.anchor_lost(rule, fn)
            continue
        b, steps, is_tag = vs_
        for p in steps:
            reads = [t for t in p.trace if is_call(t) and t[1].startswith(rd)]
            names = [t[1][len(rd):] for t in reads]
            if p.kind == "try":
                ok = names in (["read_name"], ["read_name", "read_value"])
                run.ob(rule, "%s: error exits come from the two element reads, in order" % fn.split("::")[-2], ok or any(is_call(t, st) for t in p.trace), "reads %s" % names, site(b),
                       key="%s|%s|error-path-reads" % (rule, fn))
                continue
            n += 1
            calls = [t for t in p.trace if is_call(t, st)]
            ok = names == ["read_name", "read_value"] and len(calls) == 1
            if ok:
                a = calls[0][2]
                strip_ = lambda x: x[1] if (isinstance(x, tuple) and x[0] in ("ok?", "await")) else x
                def core(x):
                    while isinstance(x, tuple) and x[0] in ("ok?", "await"):
                        x = x[1]
                    return x
                ok = is_tag(a[1]) and core(a[2]) is not None and is_call(core(a[2]), rd + "read_name") and is_call(core(a[3]), rd + "read_value")
            run.ob(rule, "%s: every value tag is followed by one name read and one value read, both handed to the state machine" % fn.split("::")[-2], ok,
                   "reads on the path: %s; state-machine calls: %d [%s] (an element that is not read leaves its bytes in the stream: everything after it is misread)" % (
                       names, len(calls), " && ".join(cshow(c) for c in p.conds)[-160:]), site(b), key="%s|%s|name-value" % (rule, fn))
    return n


def r_trace_display(run, F):
    """The parser formats every decoded value in a trace!() call: a Display that can panic on decoded text (byte-offset slices, unwraps, explicit
    panics) makes the parser abort on a well-formed message whenever a logger accepts trace records. R-GUARD's clauses for that, over the parse cone."""
    import os
    from . import guardrules as gr
    from .engine import VERIF, Only, load_json
    TP = load_json(os.path.join(VERIF, "tables", "panic.json"))
    g = gr.call_graph(F)
    gr.r_guard(Only(run, "|text slice of", "|panic|", "|unwrap|", "|length guard of", "|subtraction|", "|addition|"), F, TP, gr.cone(g, gr.PARSE_ROOTS))
