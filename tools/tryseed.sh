#!/bin/bash
# usage: tryseed.sh <patch.diff> <PID> [PID...]   applies the patch to /repo, runs the checks, reverts.
patch="$1"; shift
cd /repo || exit 2
if ! git diff --quiet; then echo "/repo is dirty; refusing"; exit 2; fi
if ! git apply "$patch"; then echo "patch does not apply"; exit 3; fi
trap 'git -C /repo checkout -- . ; git -C /repo clean -fdq -- ipp util examples 2>/dev/null' EXIT
rc=0
for p in "$@"; do
  (cd /verif && ./check "$p" ${TIER:+--tier $TIER}) 2>&1 | grep -v "conda.cli" | tail -${LINES_OUT:-8}
done
