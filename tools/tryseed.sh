#!/bin/bash
# usage: tryseed.sh <patch.diff> <PID> [PID...]   applies the patch to /repo, runs the checks, reverts.
# Evidence files are saved and restored, so committed evidence always comes from the unchanged tree.
patch="$1"; shift
cd /repo || exit 2
if ! git diff --quiet; then echo "/repo is dirty; refusing"; exit 2; fi
if ! git apply "$patch" 2>/dev/null && ! git apply -3 "$patch" 2>/dev/null; then echo "patch does not apply"; exit 3; fi
git reset -q 2>/dev/null
save=$(mktemp -d /tmp/evsave.XXXXXX); cp /verif/evidence/*.json "$save"/ 2>/dev/null
trap 'git -C /repo checkout -- . ; git -C /repo clean -fdq -- ipp util examples 2>/dev/null; cp "$save"/*.json /verif/evidence/ 2>/dev/null; rm -rf "$save" /verif/evidence/violations' EXIT
for p in "$@"; do
  (cd /verif && ./check "$p" ${TIER:+--tier $TIER}) 2>&1 | grep -v "conda.cli" | tail -${LINES_OUT:-8}
done
