#!/usr/bin/env python3
"""The repaired defects must be reported again if they ever return: each `fix:` commit of /repo is reverted on a scratch worktree
(selftest/reverts/<finding>-<property>.diff = reverse diff of that commit; later fixes that touch the same lines may make a
reverse diff not apply - then the commit's parent tree is checked instead) and the property's check must raise a violation."""
import glob, os, shutil, subprocess, sys, tempfile
VERIF = os.path.dirname(os.path.dirname(os.path.abspath(__file__)))
bad = []
for p in sorted(glob.glob(os.path.join(VERIF, "selftest", "reverts", "*.diff"))):
    name = os.path.basename(p)[:-5]
    finding, pid = name.split("-")
    tmp = tempfile.mkdtemp(prefix="ipprev.")
    dst = os.path.join(tmp, "repo")
    try:
        subprocess.check_call(["git", "-C", "/repo", "worktree", "add", "--detach", dst, "HEAD"], stdout=subprocess.DEVNULL, stderr=subprocess.DEVNULL)
        if subprocess.call(["git", "-C", dst, "apply", "-3", p], stdout=subprocess.DEVNULL, stderr=subprocess.DEVNULL) != 0:
            print("%-8s reverse diff does not apply to HEAD any more" % name)
            bad.append(name)
            continue
        env = dict(os.environ, IPP_REPO=dst, IPP_EVIDENCE_DIR=os.path.join(tmp, "ev"))
        r = subprocess.run([os.path.join(VERIF, "check"), pid], env=env, stdout=subprocess.PIPE, stderr=subprocess.STDOUT, text=True)
        rules = sorted({l.split("]")[0].strip()[1:] for l in r.stdout.splitlines() if l.strip().startswith("[")})
        ok = r.returncode == 1
        print("%-8s %-10s %s" % (name, "reported" if ok else ("no verdict" if r.returncode == 2 else "NOT REPORTED"), ",".join(rules)))
        if not ok:
            bad.append(name)
    finally:
        subprocess.call(["git", "-C", "/repo", "worktree", "remove", "--force", dst], stdout=subprocess.DEVNULL, stderr=subprocess.DEVNULL)
        shutil.rmtree(tmp, ignore_errors=True)
print("%d reverted fixes not reported: %s" % (len(bad), bad))
sys.exit(1 if bad else 0)
