#!/usr/bin/env python3
"""Run every stored seed (/verif/seeded/*/patch.diff) against the check of the property it breaks, on a scratch worktree of /repo's HEAD
(outside /repo and /verif, removed afterwards). Writes seeded/RESULTS.json + RESULTS.md. Informational: measures the checker."""
import json, os, shutil, subprocess, sys, tempfile
VERIF = os.path.dirname(os.path.dirname(os.path.abspath(__file__)))
flt = sys.argv[1] if len(sys.argv) > 1 else ""
out = {}
rp = os.path.join(VERIF, "seeded", "RESULTS.json")
if os.path.exists(rp) and flt:
    out = json.load(open(rp))
for sid in sorted(os.listdir(os.path.join(VERIF, "seeded"))):
    d = os.path.join(VERIF, "seeded", sid)
    if not os.path.isdir(d) or (flt and flt not in sid):
        continue
    meta = json.load(open(os.path.join(d, "meta.json")))
    tmp = tempfile.mkdtemp(prefix="ippseed.")
    dst = os.path.join(tmp, "repo")
    try:
        subprocess.check_call(["git", "-C", "/repo", "worktree", "add", "--detach", dst, "HEAD"], stdout=subprocess.DEVNULL, stderr=subprocess.DEVNULL)
        r = subprocess.run(["git", "-C", dst, "apply", "-3", os.path.join(d, "patch.diff")], stdout=subprocess.PIPE, stderr=subprocess.STDOUT, text=True)
        if r.returncode != 0:
            out[sid] = {"property": meta["property"], "status": "patch does not apply to the current tree", "rules": []}
            continue
        env = dict(os.environ, IPP_REPO=dst, IPP_EVIDENCE_DIR=os.path.join(tmp, "ev"))
        pids = [meta["property"]] + meta.get("also_check", [])
        res = {}
        for pid in pids:
            c = subprocess.run([os.path.join(VERIF, "check"), pid], env=env, stdout=subprocess.PIPE, stderr=subprocess.STDOUT, text=True)
            rules = sorted({l.split("]")[0].strip()[1:] for l in c.stdout.splitlines() if l.strip().startswith("[")})
            res[pid] = {"exit": c.returncode, "rules": rules}
        main = res[meta["property"]]
        out[sid] = {"property": meta["property"], "status": "caught" if main["exit"] == 1 else ("no verdict (extraction failed)" if main["exit"] == 2 else "MISSED"), "rules": main["rules"],
                    "other": {k: v for k, v in res.items() if k != meta["property"]}}
    finally:
        subprocess.call(["git", "-C", "/repo", "worktree", "remove", "--force", dst], stdout=subprocess.DEVNULL, stderr=subprocess.DEVNULL)
        shutil.rmtree(tmp, ignore_errors=True)
    print("%-8s %-8s %s" % (sid, out[sid]["status"], ",".join(out[sid]["rules"])))
json.dump(out, open(rp, "w"), indent=1, sort_keys=True)
with open(os.path.join(VERIF, "seeded", "RESULTS.md"), "w") as f:
    f.write("# Seeded changes vs checks (tools/seedmatrix.py, on /repo HEAD)\n\n| seed | property | verdict of that property's quick check | rules that fired |\n|---|---|---|---|\n")
    for sid in sorted(out):
        f.write("| %s | %s | %s | %s |\n" % (sid, out[sid]["property"], out[sid]["status"], ", ".join(out[sid]["rules"])))
missed = [s for s in out if out[s]["status"] != "caught"]
print("%d seeds, %d caught, not caught: %s" % (len(out), len(out) - len(missed), missed))
