#!/bin/bash
# Re-run every claimed check on the current (clean) tree so that evidence/ is fresh. Fails if /repo is dirty.
cd /repo && git diff --quiet || { echo "/repo dirty"; exit 2; }
cd /verif
rc=0
for p in $(grep -v '^#' tools/claimed.txt); do ./check $p ${TIER:+--tier $TIER} 2>&1 | grep -v conda.cli | tail -3; [ ${PIPESTATUS[0]} -ne 0 ] && rc=1; done
rm -rf evidence/violations
exit $rc
