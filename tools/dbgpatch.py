#!/usr/bin/env python3
"""debug helper: dbgpatch.py <patch|-> <cfg> <crate> <def-substring>  - symx paths of a function on a scratch worktree with the patch applied"""
import sys, os, json, subprocess, tempfile, shutil
sys.path.insert(0, os.path.dirname(os.path.dirname(os.path.abspath(__file__))))
patch, cfg, crate, pat = sys.argv[1:5]
tmp = tempfile.mkdtemp(prefix="ippdbg."); dst = tmp + "/repo"
subprocess.check_call(["git", "-C", "/repo", "worktree", "add", "--detach", dst, "HEAD"], stdout=subprocess.DEVNULL, stderr=subprocess.DEVNULL)
try:
    if patch != "-":
        subprocess.check_call(["git", "-C", dst, "apply", os.path.abspath(patch)])
    os.environ["IPP_REPO"] = dst
    from ipprules import extract
    from ipprules.facts import Facts
    from ipprules.symx import paths_of, cshow, tshow
    facts, meta = extract.extract([cfg], repo=dst)
    F = Facts(facts[cfg][crate])
    for p, b in F.hir.items():
        if pat in p:
            print("==", p)
            for P in paths_of(b):
                print(" PATH", P.kind, "|", " && ".join(cshow(c) for c in P.conds)[:500])
                for t in P.trace:
                    print("     .", tshow(t)[:260])
                print("     =>", tshow(P.ret)[:400])
finally:
    subprocess.call(["git", "-C", "/repo", "worktree", "remove", "--force", dst]); shutil.rmtree(tmp, ignore_errors=True)
