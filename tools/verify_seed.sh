#!/bin/bash
# usage: verify_seed.sh <PID> <N>   -- confirms a seeded change in its scratch worktree /tmp/seed/<PID>:
#   (1) patch applies, workspace builds, the whole existing suite passes with it;
#   (2) the demonstration FAILS with the change; (3) PASSES without it.  Writes /tmp/seed/<PID>/SEED/<N>/verified.txt
pid=$1; n=$2; wt=/tmp/seed/$pid; sd=$wt/SEED/$n
cd $wt || exit 2
git checkout -q -- . ; git clean -fdq -- ipp util examples 2>/dev/null
demo_setup() {
  case $pid in
    C08) mkdir -p examples/tests; cp $sd/demo_$n.rs examples/tests/demo_$n.rs ;;
    C18) mkdir -p util/tests; cp $sd/demo.rs util/tests/demo_$n.rs ;;
    C12|C20) : ;;
    *) mkdir -p ipp/tests; cp $sd/demo.rs ipp/tests/demo_$n.rs ;;
  esac
}
demo_run() {
  case $pid in
    C08) cargo test -p ipp-examples --test demo_$n --offline ;;
    C11) cargo test -p ipp --features client --test demo_$n --offline ;;
    C12) if [ "$n" = 2 ]; then CARGO_TARGET_DIR=$wt/target cargo test --offline --manifest-path SEED/$n/demo/Cargo.toml; else CARGO_TARGET_DIR=$wt/target cargo test --offline --manifest-path SEED/$n/demo/Cargo.toml; fi ;;
    C18) cargo test -p ipp-util --offline --test demo_$n ;;
    C20) CARGO_TARGET_DIR=target/demo cargo run --offline --manifest-path SEED/$n/demo/Cargo.toml ;;
    *) cargo test -p ipp --offline --test demo_$n ;;
  esac
}
out=$sd/verified.txt; : > $out
git apply $sd/patch.diff || { echo "APPLY-FAIL" >> $out; exit 1; }
cargo build --workspace --offline >/dev/null 2>&1 && echo "build-with-change: ok" >> $out || echo "build-with-change: FAIL" >> $out
cargo check -p ipp --all-features --offline >/dev/null 2>&1 && echo "check-all-features-with-change: ok" >> $out || echo "check-all-features-with-change: FAIL" >> $out
res=$(cargo test --workspace --offline 2>&1 | grep -E "^test result" | awk '{p+=$4; f+=$6} END {print p" passed "f" failed"}')
echo "suite-with-change: $res" >> $out
demo_setup
demo_run >/tmp/seed/$pid/demo_with.log 2>&1; echo "demo-with-change: exit $?" >> $out
git checkout -q -- . 
demo_run >/tmp/seed/$pid/demo_without.log 2>&1; echo "demo-without-change: exit $?" >> $out
git clean -fdq -- ipp util examples 2>/dev/null
cat $out
