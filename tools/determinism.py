#!/usr/bin/env python3
"""Determinism sweep for the rule layer: a verdict must not depend on Python's per-process string-hash seed (set / dict
iteration order). For the clean tree and for every stored seed, the tree is extracted ONCE (scratch worktree, facts cached
under the scratch dir via IPP_TEST_FACTS_CACHE) and the property's rules are run under several PYTHONHASHSEED values; the
exit status, the obligation counts and the set of reported violations must be identical. Informational: measures the checker."""
import json, os, re, shutil, subprocess, sys, tempfile
VERIF = os.path.dirname(os.path.dirname(os.path.abspath(__file__)))
SEEDS = ["0", "1", "2", "3", "7", "11"]
flt = sys.argv[1] if len(sys.argv) > 1 else ""
ALL = ["C%02d" % i for i in range(1, 21)]
jobs = [("clean", None, ALL)]
for sid in sorted(os.listdir(os.path.join(VERIF, "seeded"))):
    d = os.path.join(VERIF, "seeded", sid)
    if os.path.isdir(d):
        jobs.append((sid, os.path.join(d, "patch.diff"), [json.load(open(os.path.join(d, "meta.json")))["property"]]))
bad = []
for name, patch, pids in jobs:
    if flt and flt not in name:
        continue
    tmp = tempfile.mkdtemp(prefix="ippdet.")
    dst = os.path.join(tmp, "repo")
    try:
        subprocess.check_call(["git", "-C", "/repo", "worktree", "add", "--detach", dst, "HEAD"], stdout=subprocess.DEVNULL, stderr=subprocess.DEVNULL)
        if patch and subprocess.call(["git", "-C", dst, "apply", "-3", patch], stdout=subprocess.DEVNULL, stderr=subprocess.DEVNULL) != 0:
            print("%-8s patch does not apply" % name)
            bad.append(name)
            continue
        for pid in pids:
            seen = {}
            for hs in SEEDS:
                env = dict(os.environ, IPP_REPO=dst, IPP_EVIDENCE_DIR=os.path.join(tmp, "ev"), IPP_TEST_FACTS_CACHE=os.path.join(tmp, "fc"), PYTHONHASHSEED=hs)
                c = subprocess.run([os.path.join(VERIF, "check"), pid], env=env, stdout=subprocess.PIPE, stderr=subprocess.STDOUT, text=True)
                lines = sorted(re.sub(r"wall=\S+", "", l.strip()) for l in c.stdout.splitlines() if l.strip().startswith("[") or re.match(r"^(OK|VIOLATION|ERROR|KNOWN)", l))
                lines = [re.sub(r"violations/\S+", "", l) for l in lines]
                seen.setdefault((c.returncode, "\n".join(lines)), []).append(hs)
            if len(seen) != 1:
                bad.append("%s/%s" % (name, pid))
                print("%-8s %s NONDETERMINISTIC: %s" % (name, pid, {k[0]: v for k, v in seen.items()}))
                ks = list(seen)
                a, b = set(ks[0][1].splitlines()), set(ks[1][1].splitlines())
                for l in sorted(a ^ b)[:6]:
                    print("      differs: " + l[:260])
            else:
                print("%-8s %s stable (exit %d under %d hash seeds)" % (name, pid, list(seen)[0][0], len(SEEDS)))
    finally:
        subprocess.call(["git", "-C", "/repo", "worktree", "remove", "--force", dst], stdout=subprocess.DEVNULL, stderr=subprocess.DEVNULL)
        shutil.rmtree(tmp, ignore_errors=True)
print("%d unstable: %s" % (len(bad), bad))
sys.exit(1 if bad else 0)
