#!/bin/sh
# usage: mkseedwt.sh <name>   -> creates scratch worktree /tmp/seed/<name> of /repo HEAD with a warm target dir
set -e
d=/tmp/seed/$1
mkdir -p /tmp/seed
git -C /repo worktree add --detach "$d" HEAD >/dev/null 2>&1
cp -r /repo/target "$d/target" 2>/dev/null || true
mkdir -p "$d/SEED"
echo "$d"
