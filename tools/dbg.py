#!/usr/bin/env python3
"""debug helper: dbg.py <cfg> <crate> paths|hir|mir <def-substring>"""
import json,sys,os
sys.path.insert(0, os.path.dirname(os.path.dirname(os.path.abspath(__file__))))
from ipprules.facts import *
from ipprules.symx import *
cfg,crate,what,pat=sys.argv[1:5]
d=json.load(open('/verif/.cache/facts-test/%s.%s.json'%(crate,cfg)))
F=Facts(d)
if what=='paths':
    for p,b in F.hir.items():
        if pat in p:
            print('==',p)
            for P in paths_of(b):
                print(' PATH', P.kind, '|', ' && '.join(cshow(c) for c in P.conds))
                for t in P.trace: print('     .', tshow(t)[:300])
                print('     =>', tshow(P.ret)[:400])
elif what=='hir':
    for p,b in F.hir.items():
        if pat in p: print('==',p); print(show(b['body']))
elif what=='mir':
    for p,b in F.mir.items():
        if pat in p:
            print('==',p, b['kind'])
            for i,l in enumerate(b['locals']): print('   _%d: %s %s'%(i,l['ty'],l.get('name','')))
            for i,bl in enumerate(b['blocks']):
                print(' bb%d%s'%(i,' (cleanup)' if bl['cleanup'] else ''))
                for s in bl['s']: print('     ',json.dumps(s)[:260])
                print('   T',json.dumps(bl['t'])[:400])
