#!/usr/bin/env python3
"""Second benign bank: behaviour-preserving refactorings written by independent sub-agents (selftest/benign_patches/<id>.diff with
<id>.md = their argument why behaviour is unchanged). Each is applied to a scratch worktree of /repo's HEAD (outside /repo and /verif,
removed afterwards) and all 20 checks must stay silent. usage: benignpatches.py [filter] [--dir <dir with */patch.diff>] [--pids C01,C05]"""
import glob, os, shutil, subprocess, sys, tempfile
VERIF = os.path.dirname(os.path.dirname(os.path.abspath(__file__)))
args = [a for a in sys.argv[1:]]
src = os.path.join(VERIF, "selftest", "benign_patches")
if "--dir" in args:
    i = args.index("--dir")
    src = args[i + 1]
    del args[i:i + 2]
pids = ["all"]
if "--pids" in args:
    i = args.index("--pids")
    pids = [args[i + 1]]
    del args[i:i + 2]
flt = args[0] if args else ""
patches = sorted(glob.glob(os.path.join(src, "*.diff")) + glob.glob(os.path.join(src, "*", "REFACTOR", "*", "patch.diff")))
results = []
for p in patches:
    name = os.path.relpath(p, src).replace("/REFACTOR/", "-").replace("/patch.diff", "").replace(".diff", "")
    if flt and flt not in name:
        continue
    tmp = tempfile.mkdtemp(prefix="ippben.")
    dst = os.path.join(tmp, "repo")
    try:
        subprocess.check_call(["git", "-C", "/repo", "worktree", "add", "--detach", dst, "HEAD"], stdout=subprocess.DEVNULL, stderr=subprocess.DEVNULL)
        if subprocess.call(["git", "-C", dst, "apply", p], stdout=subprocess.DEVNULL, stderr=subprocess.DEVNULL) != 0:
            results.append((name, "PATCH-DOES-NOT-APPLY", []))
            continue
        env = dict(os.environ, IPP_REPO=dst, IPP_EVIDENCE_DIR=os.path.join(tmp, "ev"))
        r = subprocess.run([os.path.join(VERIF, "check")] + pids, env=env, stdout=subprocess.PIPE, stderr=subprocess.STDOUT, text=True)
        lines = [l.strip() for l in r.stdout.splitlines() if l.strip().startswith("[") or l.startswith("ERROR")]
        status = "silent" if r.returncode == 0 else ("DOES-NOT-COMPILE" if r.returncode == 2 else "ALARM")
        results.append((name, status, sorted(set(l[:260] for l in lines))[:5]))
    finally:
        subprocess.call(["git", "-C", "/repo", "worktree", "remove", "--force", dst], stdout=subprocess.DEVNULL, stderr=subprocess.DEVNULL)
        shutil.rmtree(tmp, ignore_errors=True)
    print("%-16s %-20s %s" % (results[-1][0], results[-1][1], "\n      ".join([""] + results[-1][2])), flush=True)
known = set()
kp = os.path.join(VERIF, "selftest", "benign_patches", "KNOWN_ALARMS.txt")
if os.path.exists(kp):
    known = {l.strip() for l in open(kp) if l.strip() and not l.startswith("#")}
bad = [r for r in results if r[1] != "silent" and r[0] not in known]
listed = [r for r in results if r[1] != "silent" and r[0] in known]
fixed = [r for r in results if r[1] == "silent" and r[0] in known]
print("%d refactorings, %d silent, %d not (%d of them listed in KNOWN_ALARMS.txt%s)" % (
    len(results), len(results) - len(bad) - len(listed), len(bad) + len(listed), len(listed), "; now silent although listed: %s" % [r[0] for r in fixed] if fixed else ""))
sys.exit(1 if bad else 0)
