#!/usr/bin/env python3
"""Regenerates /verif/MANIFEST.json from the table below. CLAIMED lists the properties whose
check is implemented; everything else goes to not_applicable with its reason."""
import json
import os

VERIF = os.path.dirname(os.path.dirname(os.path.abspath(__file__)))

TRUST = "rustc nightly's HIR/typeck/MIR construction and constant evaluation (the extractor only serialises them); the Python rule engine; the hand-reviewed oracle tables under /verif/tables; "

P = {
 "C01": dict(level="other", design="DESIGN.md 4 C01", technique="static analysis: encoder/decoder table agreement over resolved HIR (R-TAGMAP, R-LAYOUT, R-LENPREFIX, R-TAGBODY, R-BRACKET, R-CAST, R-FRAME) + drop-flag path analysis on elaborated MIR (R-LINEAR); parser-side reject census (R-REJECT), 256-value dispatch partition (R-DISPATCH) and emission order (R-ORDERLIST / R-GROUPS) as sibling clauses; nesting-limit placement (R-DEPTH); token framing of the front ends (R-TOKEN); no panic in the parser's trace formatting; R-BE, R-LOSSY, R-READEXACT, R-PROPAGATE, container clauses of C19, parser never calls add(); parser state-order rules (R-ORDERED), parse_delimiter returns the decoded delimiter, member rejection only with an item in hand",
             text="Structural necessary conditions of round-trip equality, decided on every run from the type-checked program: kind->tag->kind identity, per-kind field order/width/length-prefix symmetry between IppValue::to_bytes and IppValue::parse, tag/body pairing in sets and collections, injective casts, header/attribute framing symmetry, and no silently dropped value in the parser state machine. Not a proof of round-trip equality over the unbounded recursive value type (that needs execution). Also: every rejection in the decoder is one of the reviewed ones, every group is emitted, the header constructor stores its arguments.",
             note=TRUST + "bytes::Buf/BufMut contracts. Not decided: full round-trip equality for all messages."),
 "C02": dict(level="other", design="DESIGN.md 4 C02", technique="static analysis: buffer lower-bound dataflow over MIR against a panic-precondition table (R-GUARD), loop progress classification (R-LOOP), call-graph acyclicity (R-NOREC), constant nesting bound (R-DEPTH), 256-value dispatch partition (R-DISPATCH); staleness-tracked length observations, text-slice character boundaries, constant pre-allocation budget per token; narrow-addition overflow; exact length guards; no user Drop impl on returned types; range bounds of drain/split_at",
             text="Every panicking library call / MIR assert reachable from the parse roots is dominated by a recognised guard; the parser is iterative; every loop consumes input or iterates a finite container; nesting of the recursive value type is bounded by a constant where it grows; every tag byte is classified delimiter/value/reject.",
             note=TRUST + "T-PANIC preconditions (bytes 1.x, std). Not decided: panics inside third-party code on precondition-satisfying arguments; allocator failure."),
 "C03": dict(level="other", design="DESIGN.md 4 C03", technique="static analysis: encoder wire layout per kind extracted from resolved HIR and compared with an RFC 8010 layout table and the IANA tag registry (R-TAGMAP, R-LAYOUT, R-LENPREFIX, R-TAGBODY, R-BRACKET, R-BE, R-FRAME, R-ENDTAG, R-MAPKEY); emission of every group (R-GROUPS); every set element emitted once; container clauses of C19",
             text="The encoder's per-kind wire layout, tag constants, length prefixes, set/collection bracketing, big-endian only, one unconditional end tag and map-key = attribute-name are compared with external RFC tables; this sees mistakes that are symmetric inside the library. Not a decision of decoded-content equality for arbitrary messages.",
             note=TRUST + "tables/layout.json (RFC 8010 3.9), tables/registry.json. Not decided: equality of decoded content for arbitrary trees."),
 "C04": dict(level="other", design="DESIGN.md 4 C04", technique="static analysis: 256-value tag partition by constant propagation over MIR (R-DISPATCH), decoder table vs RFC layout (R-LAYOUT), lossy-text census (R-LOSSY), order-preserving container operations (R-ORDERED), drop-flag path analysis (R-LINEAR); reject census: every Err-returning condition in the reader/parser/decoder cone is a reviewed one (R-REJECT); R-GUARD text-slice clause over the parse cone (Display in trace!); nesting-limit placement (R-DEPTH); exact length guards; decoded text stored unaltered; decoder arms selected by tag and exact length only; R-TOKEN; R-PROPAGATE; R-LINEAR over every function of the parser module with ownership-closed markers; R-READEXACT, R-STOP/R-ONLYEXIT, R-ERRWRAP, container clauses of C19, parser never calls add()",
             text="Tag-byte partition of the dispatch over all 256 bytes, decode table per tag vs RFC layout, lossy text conversion only, order-preserving containers, and no silent drop of a received value on a success path. No rejection beyond the reviewed wire-format ones (a cap or filter added to the reader is reported).",
             note=TRUST + "Not decided: that the pairing algorithm yields exactly the RFC reading for every tree."),
 "C05": dict(level="translation_validation", design="DESIGN.md 4 C05", technique="static analysis: sibling equality modulo await - normalised resolved-HIR tree comparison of the 18 sync/async twin pairs (R-TWIN); payload adaptor arms (R-FORWARD) as sibling clause; second judgement on canonical path summaries when the trees differ (all front-end functions inlined, tag tests as byte sets over the 256 values)",
             text="The 18 blocking/async sibling pairs are compared as resolved HIR trees after erasing the async lowering, `.await`, log statements and the sibling name map; both front ends must call the same state-machine DefIds and no hand-written poll exists. Any one-sided edit is reported with the path to the first difference.",
             note=TRUST + "futures_util::io::ReadExact / std read_exact schedule independence (trusted)."),
 "C06": dict(level="other", design="DESIGN.md 4 C06", technique="static analysis: who-may-call on the reader's source field (R-READEXACT), exact-size buffer flow, no reader call after the end-of-attributes edge in MIR (R-STOP); only pass-through adaptors between the HTTP response body and the parser in both clients (R-HTTPSHAPE parse-source clause); payload adaptor pass-through (R-FORWARD); R-TOKEN; R-DISPATCH (incl. parse_delimiter returns the delimiter it decoded); no panic in the parser's trace formatting; R-PROPAGATE, R-REJECT",
             text="Only read_exact on exactly-sized buffers touches the source; reader structs own nothing but the source; no reader call is reachable between the end-of-attributes edge and return; the source is moved out unchanged. The clients hand the whole response stream to the parser.",
             note=TRUST + "read_exact's fragmentation/Interrupted handling (std / futures-util, trusted)."),
 "C07": dict(level="other", design="DESIGN.md 4 C07", technique="static analysis: error-discipline census over resolved HIR (R-PROPAGATE), single Ok exit dominated by the end-of-attributes edge (R-ONLYEXIT), identity error wrappers (R-ERRWRAP); R-TOKEN; payload bridge forwarding (R-FORWARD)",
             text="Every fallible call in the reader/parser cone is propagated; the only Ok exit is dominated by the end-of-attributes edge; From<io::Error> conversions are identity wrappers.",
             note=TRUST + "read_exact => UnexpectedEof on short input (trusted)."),
 "C08": dict(level="other", design="DESIGN.md 4 C08", technique="static analysis: structural match of into_read/into_async_read and the payload Read/AsyncRead arms over resolved HIR (R-CHAIN, R-FORWARD); impl-items census of the payload's Read/AsyncRead impls; operations attach the payload unchanged (C10's clause)",
             text="into_read/into_async_read = Cursor(to_bytes()).chain(payload) in that order; each payload arm forwards the caller's buffer unsliced to exactly one inner read and returns its result unchanged.",
             note=TRUST + "Chain, Cursor, AllowStdIo, block_on semantics (trusted)."),
 "C09": dict(level="other", design="DESIGN.md 4 C09", technique="static analysis: compiler-evaluated ordered-first constant vs RFC 8011 4.1.4-4.1.5 and emission-schedule shape of IppAttributes::to_bytes over resolved HIR (R-ORDERLIST, R-ENDTAG); base attributes of request and response constructors (C10's clauses); requests are serialised through IppAttributes::to_bytes itself (C08's clause); length-prefix / layout / frame / byte-order clauses of C03 (an attribute occupies exactly the octets its length fields announce)",
             text="The ordered-first name list that drives emission, as evaluated by the compiler, has charset, natural-language, then target uri(s), then job-id; the unordered (hash-map) part is filtered by exactly that list; the operation delimiter is the first byte after the header. Independent of insertion and hash order by construction.",
             note=TRUST + "HashMap::get returns the entry (trusted)."),
 "C10": dict(level="other", design="DESIGN.md 4 C10", technique="static analysis: per-operation wiring extraction from resolved HIR compared with an RFC 8011 operation table (R-OPWIRE), builder field->parameter flow and field liveness (R-BUILDERS); no in-place mutation of a wired value between setter and attribute; field types of operation structs/builders keep order and multiplicity; no reordering of the caller's lists; attribute constructor stores its arguments; emission clauses of C09",
             text="Per operation: operation constant, version, request-id and every (group, name, value-constructor, source field) wiring equals the table, nothing extra; builder->constructor argument flow; replace-vs-accumulate setters.",
             note=TRUST + "HashMap::insert semantics (trusted); tables/ops.json."),
 "C11": dict(level="other", design="DESIGN.md 4 C11", technique="static analysis: configuration-field liveness into the HTTP builder chain and HTTP call-shape extraction from resolved HIR under each client cfg (R-CONFIG-LIVE, R-HTTPSHAPE); who-may-write the client configuration (R-CONFIG-LIVE writers); Cargo manifest audit of the HTTP/TLS stacks' features against a reviewed table (R-CARGO); reader/parser error discipline of C07 (cut connection); parsed response is the Ok result of the send; URL-mapping clauses of C14; process-wide state census; request stream and payload bridge (C08); neutral builder defaults; unconditional header loop",
             text="Each client configuration field is consumed on the path to the HTTP send; POST to the mapped URL; content-type constant; body derives from into_read/into_async_read of the request; success-status edge dominates the async parse; parse errors propagate; basic-auth header shape. Everything the HTTP stacks do at run time is not decided. The stored target uri is written by the constructor only; the dependency features of ureq/reqwest/rustls equal the reviewed lists.",
             note=TRUST + "Not decided (most of the behavioural statement): framing, fragmentation, timeouts firing, concurrency, exactly one POST - run-time behaviour of reqwest/ureq."),
 "C12": dict(level="other", design="DESIGN.md 4 C12", technique="static analysis: who-may-call enumeration of TLS-weakening APIs with control/data dependence on the opt-out flag, per backend cfg (R-TLSGATE), root-certificate liveness (R-CONFIG-LIVE); Cargo manifest audit of the TLS stacks' features (R-CARGO); ca_cert setter stores the caller's bytes unchanged; census of every option set on the HTTP/TLS builders; builder stores the target as given (config-writer clause); PEM-before-DER decoding order; URL authority clauses of C14",
             text="Every call of a TLS danger API is control-dependent on the flag being true or data-dependent on the flag itself (no negation); the flag defaults to false; every stored root reaches the root store; the accept-all verifier is constructed at one gated site - under each backend's cfg.",
             note=TRUST + "tables/danger.json. Not decided: certificate validation inside native-tls / rustls / reqwest / ureq."),
 "C13": dict(level="other", design="DESIGN.md 4 C13", technique="static analysis: accessor-whitelist taint analysis of canonicalize_uri and of every printer-uri attribute construction over resolved HIR (R-TAINT-URI); encoder length-prefix = whole string (R-LAYOUT) so the canonical uri is sent in full; builder target flow (C10's R-BUILDERS)",
             text="The canonical URI is built only from the constant scheme, host(), port_u16(), path(); every printer-uri attribute value in the crate flows from canonicalize_uri; one reviewed exception (builder-failure fallback).",
             note=TRUST + "Not decided: reachability of the fallback inside http::Uri::builder."),
 "C14": dict(level="other", design="DESIGN.md 4 C14", technique="static analysis: (scheme, http-scheme, default-port) table extracted from the match in ipp_uri_to_string and compared with RFC 3510/7472; branch and assembly shape (R-SCHEMETABLE); who-may-write the stored target uri; both clients map exactly the configured uri; ipputil hands the parsed command-line uri to the client unchanged; process-wide state census of the client module; the clients post to the mapped URL unmodified (C11's uri clause)",
             text="The scheme/default-port table extracted from the code equals RFC 3510/7472; explicit-port and pass-through branches; output assembled from whole authority and path-and-query. One known finding (ipps default 443) is listed by exact key. Nobody rewrites the configured target between construction and the mapping.",
             note=TRUST + "http::Uri accessors (trusted)."),
 "C15": dict(level="other", design="DESIGN.md 4 C15", technique="static analysis: census and classification of every linear-cost library call and loop in the parse cone (R-COSTSITES) with the constant nesting bound (R-DEPTH); keyed default hasher for hash containers of message types; constant pre-allocation budget; HIR loop census; crate-local iterator next() as cost site; streaming response source (C11's parse-source clause); shrink/sort calls as linear-cost sites; fold accumulators not copied; no exact reservations on growing lists; R-READEXACT buffer clauses",
             text="Every linear-cost library call and every loop in the parse cone is classified bounded / amortised-by-pop / per-token; no deep copy of accumulated values unless nesting is bounded. A screen for amplification sites, not a complexity proof.",
             note=TRUST + "tables/cost.json. Not decided: asymptotic cost in general; allocator behaviour."),
 "C16": dict(level="proof", design="DESIGN.md 4 C16", technique="static analysis: compiler-evaluated discriminants vs registry table; derived decode chains read as literal->variant tables and enumerated exhaustively over the 16-bit / 8-bit input domain; tag/body agreement of the value encoder and decoder for out-of-band kinds (R-TAGMAP, R-TAGBODY); parser tag dispatch partition (R-DISPATCH); operation id emitted per operation type (C10's op-id clause); readiness helper's success test (C17's R-READY); reader/parser error discipline of C07",
             text="Finite-domain proof on tables extracted from the type-checked program: every discriminant equals the registry; the derived decode chain is the identity on discriminants for all 65 536 / 256 inputs; status decoding falls back to unknown; the success set contains the RFC 8011 successful codes and lies within 0x0000-0x00ff. Obligations = one per variant, per decode table, per input class; all must be discharged.",
             note=TRUST + "num-traits' provided from_u16 -> from_u64 delegation; tables/registry.json."),
 "C17": dict(level="other", design="DESIGN.md 4 C17", technique="static analysis: evaluated keyword constant vs the 10-word list and gate/polarity/shape extraction of is_printer_ready over resolved HIR (R-READY); status-code decoding and success-set clauses of C16 (R-STATUS, R-SUCCESS); container clauses of C19, serde audit of C20 where compiled, ipputil's state-query clause; parser clauses of C04",
             text="Blocking-keyword constant equals the 10-word list; status gate polarity and early Err; Stopped pattern constant; reasons scan goes through the value iterator and as_keyword; Ok(true) only as fall-through.",
             note=TRUST + "slice::contains / Iterator::any (trusted); the value iterator's behaviour is C19's clause."),
 "C18": dict(level="other", design="DESIGN.md 4 C18", technique="static analysis: cut-set reachability of the Print-Job send in the MIR CFG of do_print_job (R-PRINTGATE), FromStr typing table, CLI-field->builder wiring, error propagation to main; requested-attributes of the state query cover what the readiness helper reads; C17's rules re-run; blocking-client clauses of C11; ipputil target clause of C14; every attribute of every group reaches the wire (C09's emission clauses); Print-Job wiring clauses of C10",
             text="The Print-Job send is unreachable from entry once the no_check_state and is_printer_ready==true edges are removed; option typing table of FromStr; argument->builder wiring; every exchange's error and non-success status reaches main's Err. The state query asks for all attributes or at least printer-state and printer-state-reasons.",
             note=TRUST + "Not decided: bytes on the wire, exit-code mapping (std Termination), clap parsing, file I/O."),
 "C19": dict(level="other", design="DESIGN.md 4 C19", technique="static analysis: container-operation shape extraction and who-may-call on reordering operations over resolved HIR (R-CONTAINER, R-ORDERED), iterator progress on every Some path; map key = attribute name in the parser (R-MAPKEY); impl-items census of the value iterator; attribute maps changed by insert only; attribute constructor stores its arguments",
             text="Only order-preserving operations touch the group list; add = first-match search, else push at end, insert keyed by own name; collection type is an ordered map; iterator progress on every Some path.",
             note=TRUST + "Not decided: exact element order of indexed access (needs linear arithmetic; one reviewed exception)."),
 "C20": dict(level="other", design="DESIGN.md 4 C20", technique="static analysis: impl-provenance and serde-attribute audit over type facts under the serde cfg, Cargo feature wiring, trait-bound compile witness (R-SERDE); parser nesting limit vs serde_json recursion limit",
             text="With serde on: Serialize and Deserialize are both derived for every type in the message closure; serde attribute audit (only skip on the payload); feature wiring in Cargo.toml; trait-bound compile witness.",
             note=TRUST + "Not decided: serde derive / serde_json round-trip semantics (third-party)."),
}

CLAIMED = os.environ.get("CLAIMED", "").split(",") if os.environ.get("CLAIMED") else None


def main():
    claimed_file = os.path.join(VERIF, "tools", "claimed.txt")
    claimed = [l.strip() for l in open(claimed_file) if l.strip() and not l.startswith("#")]
    props = [json.loads(l) for l in open(os.path.join(VERIF, "properties.jsonl"))]
    checks = []
    na = []
    for p in props:
        pid = p["id"]
        spec = P[pid]
        if pid in claimed:
            checks.append({
                "property_id": pid,
                "quick_cmd": "./check %s --tier quick" % pid,
                "thorough_cmd": "./check %s --tier thorough" % pid,
                "evidence_file": "/verif/evidence/%s.json" % pid,
                "replay_cmd_template": "./check %s --replay {path}" % pid,
                "engine": "ippfacts+ipprules",
                "level_claimed": {"category": spec["level"], "text": spec["text"], "design_ref": spec["design"]},
                "level_note": spec["note"],
                "technique": spec["technique"],
            })
        else:
            na.append({"property_id": pid, "reason": "check not implemented yet in this tree (planned rules: %s); not claimed until the rule exists and passes on the unchanged tree" % spec["design"]})
    m = {
        "version": 1,
        "setup_cmd": "./setup.sh",
        "hooks": {"guard": "none", "enable": "no hooks: the extractor is a rustc driver and reads private items directly; /repo is built unmodified",
                  "baseline_off_cmd": "cd /repo && cargo test --workspace --no-fail-fast --offline", "source_commits": [], "add_only": True},
        "engines": [
            {"name": "ippfacts", "path": "/verif/ippfacts", "serves_properties": claimed,
             "kind_free_text": "nightly rustc_private driver (RUSTC_WORKSPACE_WRAPPER) serialising resolved HIR, built and drop-elaborated MIR, ADT/impl/const facts of /repo's workspace members per feature configuration"},
            {"name": "ipprules", "path": "/verif/ipprules", "serves_properties": claimed,
             "kind_free_text": "Python rule engine: repository-specific static-analysis rules (table comparison, dataflow, dominance/cut-set, tree comparison) evaluated over the extracted facts against hand-reviewed oracle tables"},
        ],
        "checks": checks,
        "notes": "Technique family: static analysis only. R-CFGCOVER makes every run report cfg-gated code of the anchored files that none of its configurations compiled. Every check re-extracts facts from /repo's current working tree (fresh member build, nonce-checked fact files) and decides structural clauses; clauses that need execution are listed per property under coverage.not_decided in the evidence and in DESIGN.md section 6.",
        "not_applicable": na,
    }
    with open(os.path.join(VERIF, "MANIFEST.json"), "w") as f:
        json.dump(m, f, indent=1)
    print("claimed:", claimed)


if __name__ == "__main__":
    main()
