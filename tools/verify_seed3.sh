#!/bin/bash
# usage: verify_seed3.sh <PID> <N>   -- confirms a wave-3 seeded change in its scratch worktree /tmp/seed/<PID>
# following the COPY:/RUN: lines of its README:  (1) patch applies, workspace builds, all-features check, whole existing suite
# passes with it; (2) the demonstration FAILS with the change; (3) PASSES without it. Writes SEED/<N>/verified.txt
pid=$1; n=$2; wt=/tmp/seed/$pid; sd=$wt/SEED/$n
cd $wt || exit 2
git checkout -q -- . ; git clean -fdq -- ipp util examples 2>/dev/null
copy=$(grep -m1 -E '^COPY:' $sd/README.md | sed 's/^COPY: *//'); run=$(grep -m1 -E '^RUN:' $sd/README.md | sed 's/^RUN: *//')
dst=""
case "$copy" in none*) : ;; *) src=$(echo "$copy" | awk '{print $1}'); dst=$(echo "$copy" | awk '{print $3}') ;; esac
out=$sd/verified.txt; : > $out
echo "copy: $copy" >> $out; echo "run: $run" >> $out
git apply $sd/patch.diff || { echo "APPLY-FAIL" >> $out; cat $out; exit 1; }
cargo build --workspace --offline >/dev/null 2>&1 && echo "build-with-change: ok" >> $out || echo "build-with-change: FAIL" >> $out
cargo check -p ipp --all-features --offline >/dev/null 2>&1 && echo "check-all-features-with-change: ok" >> $out || echo "check-all-features-with-change: FAIL" >> $out
res=$(cargo test --workspace --no-fail-fast --offline 2>&1 | grep -E "^test result" | awk '{p+=$4; f+=$6} END {print p" passed "f" failed"}')
echo "suite-with-change: $res" >> $out
if [ -n "$dst" ]; then mkdir -p $(dirname $dst); cp $src $dst; fi
(eval "$run") > $sd/demo_with.log 2>&1; echo "demo-with-change: exit $?" >> $out
git apply -R $sd/patch.diff
(eval "$run") > $sd/demo_without.log 2>&1; echo "demo-without-change: exit $?" >> $out
git checkout -q -- . ; git clean -fdq -- ipp util examples 2>/dev/null
cat $out
