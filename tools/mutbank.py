#!/usr/bin/env python3
"""Mutation bank (informational; measures the checker, decides nothing).
usage: mutbank.py [name-substring]   - applies each one-hunk mutation of selftest/mutants.json to a scratch copy of /repo
(outside /repo and /verif, removed afterwards), runs the listed checks against the copy and records which rules fired."""
import json, os, shutil, subprocess, sys, tempfile

VERIF = os.path.dirname(os.path.dirname(os.path.abspath(__file__)))
BENIGN = "--benign" in sys.argv
args = [a for a in sys.argv[1:] if a != "--benign"]
bank = json.load(open(os.path.join(VERIF, "selftest", "benign.json" if BENIGN else "mutants.json")))
flt = args[0] if args else ""
results = []
for m in bank["mutants"]:
    if flt and flt not in m["name"]:
        continue
    tmp = tempfile.mkdtemp(prefix="ippmut.")
    try:
        dst = os.path.join(tmp, "repo")
        subprocess.check_call(["git", "-C", "/repo", "worktree", "add", "--detach", dst, "HEAD"], stdout=subprocess.DEVNULL, stderr=subprocess.DEVNULL)
        path = os.path.join(dst, m["file"])
        src = open(path).read()
        edits = m.get("edits") or [{"old": m["old"], "new": m["new"]}]
        if any(e["old"] not in src for e in edits):
            results.append((m["name"], "SKIPPED (pattern not found)", []))
            continue
        for e in edits:
            src = src.replace(e["old"], e["new"], 1)
        open(path, "w").write(src)
        env = dict(os.environ, IPP_REPO=dst, IPP_EVIDENCE_DIR=os.path.join(tmp, "ev"))
        fired = []
        status = "MISSED"
        if BENIGN:
            r = subprocess.run([os.path.join(VERIF, "check"), "all"], env=env, stdout=subprocess.PIPE, stderr=subprocess.STDOUT, text=True)
            lines = [l.strip() for l in r.stdout.splitlines() if l.strip().startswith("[") or l.startswith("ERROR")]
            status = "silent" if r.returncode == 0 else ("DOES-NOT-COMPILE" if r.returncode == 2 else "FALSE-ALARM")
            results.append((m["name"], status, [l[:230] for l in lines[:4]]))
            continue
        for pid in m["expect"]:
            r = subprocess.run([os.path.join(VERIF, "check"), pid], env=env, stdout=subprocess.PIPE, stderr=subprocess.STDOUT, text=True)
            rules = sorted({l.split("]")[0].strip()[1:] for l in r.stdout.splitlines() if l.strip().startswith("[")})
            if r.returncode == 1:
                status = "caught"
                fired.append("%s:%s" % (pid, ",".join(rules)))
            elif r.returncode == 2:
                status = "DOES-NOT-COMPILE"
                fired.append(r.stdout[-300:])
        results.append((m["name"], status, fired))
    finally:
        subprocess.call(["git", "-C", "/repo", "worktree", "remove", "--force", os.path.join(tmp, "repo")], stdout=subprocess.DEVNULL, stderr=subprocess.DEVNULL)
        shutil.rmtree(tmp, ignore_errors=True)
for name, status, fired in results:
    print("%-44s %-18s %s" % (name, status, ("\n      ".join([""] + fired) if BENIGN else " ".join(fired))))
missed = [r for r in results if r[1] not in ("caught", "silent")]   # a stale pattern (SKIPPED) counts: fail closed
print("%d mutants, %d %s, %d not" % (len(results), sum(1 for r in results if r[1] in ("caught", "silent")), "silent" if BENIGN else "caught", len(missed)))
sys.exit(1 if missed else 0)
