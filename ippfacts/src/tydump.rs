//! Type facts: ADTs (variants, discriminants, fields, attributes), impls and their
//! provenance, evaluated constants.

use crate::hirdump::{dp, span_file_line, tys};
use crate::json::J;
use rustc_hir as hir;
use rustc_hir::def::DefKind;
use rustc_hir::def_id::{DefId, LocalDefId};
use rustc_middle::ty::layout::IntegerExt;
use rustc_middle::ty::print::PrintTraitRefExt;
use rustc_middle::ty::{self, Ty, TyCtxt};
use rustc_span::Span;

fn macro_names(sp: Span) -> J {
    J::Arr(
        sp.macro_backtrace()
            .filter_map(|d| match d.kind {
                rustc_span::hygiene::ExpnKind::Macro(kind, name) => Some(J::s(format!("{:?}:{}", kind, name))),
                _ => None,
            })
            .collect(),
    )
}

fn attrs_json(tcx: TyCtxt<'_>, did: LocalDefId) -> J {
    let hir_id = tcx.local_def_id_to_hir_id(did);
    let mut out = Vec::new();
    for a in tcx.hir_attrs(hir_id) {
        match a {
            hir::Attribute::Unparsed(item) => {
                let path: Vec<String> = item.path.segments.iter().map(|s| s.to_string()).collect();
                let snip = tcx.sess.source_map().span_to_snippet(item.span).unwrap_or_default();
                out.push(J::obj().ks("path", path.join("::")).ks("text", snip).done());
            }
            hir::Attribute::Parsed(k) => {
                let s: String = format!("{:?}", k).chars().take(80).collect();
                // skip doc comments: noise
                if s.starts_with("DocComment") {
                    continue;
                }
                out.push(J::obj().ks("parsed", s).done());
            }
        }
    }
    J::Arr(out)
}

fn valtree_json<'tcx>(tcx: TyCtxt<'tcx>, ty: Ty<'tcx>, vt: ty::ValTree<'tcx>) -> J {
    use rustc_middle::ty::ValTreeKind;
    match ty.kind() {
        ty::Ref(_, inner, _) => valtree_json(tcx, *inner, vt),
        ty::Str => match &**vt {
            ValTreeKind::Branch(children) => {
                let bytes: Vec<u8> = children
                    .iter()
                    .filter_map(|c| c.try_to_value().and_then(|v| v.try_to_leaf()).map(|l| l.to_u8()))
                    .collect();
                J::s(String::from_utf8_lossy(&bytes).into_owned())
            }
            _ => J::Null,
        },
        ty::Array(elem, _) | ty::Slice(elem) => match &**vt {
            ValTreeKind::Branch(children) => J::Arr(
                children
                    .iter()
                    .map(|c| match c.try_to_value() {
                        Some(v) => valtree_json(tcx, *elem, v.valtree),
                        None => J::Null,
                    })
                    .collect(),
            ),
            _ => J::Null,
        },
        ty::Bool | ty::Char | ty::Uint(_) => match &**vt {
            ValTreeKind::Leaf(si) => J::Int(si.to_bits(si.size()) as i128),
            _ => J::Null,
        },
        ty::Int(_) => match &**vt {
            ValTreeKind::Leaf(si) => {
                let size = si.size();
                J::Int(size.sign_extend(si.to_bits(size)) as i128)
            }
            _ => J::Null,
        },
        _ => J::Null,
    }
}

fn simple_const_ty(ty: Ty<'_>) -> bool {
    match ty.kind() {
        ty::Bool | ty::Char | ty::Int(_) | ty::Uint(_) | ty::Str => true,
        ty::Ref(_, inner, _) => simple_const_ty(*inner),
        ty::Array(e, _) | ty::Slice(e) => simple_const_ty(*e),
        _ => false,
    }
}

fn eval_const<'tcx>(tcx: TyCtxt<'tcx>, did: DefId) -> J {
    let ty = tcx.type_of(did).instantiate_identity().skip_norm_wip();
    if !simple_const_ty(ty) {
        return J::Null;
    }
    let args = ty::GenericArgs::identity_for_item(tcx, did);
    if args.len() != 0 && args.iter().any(|a| a.as_type().is_some() || a.as_const().is_some()) {
        // generic parent (e.g. assoc const of a generic impl): not evaluable
        return J::Null;
    }
    let env = ty::TypingEnv::fully_monomorphized();
    let instance = ty::Instance::new_raw(did, args);
    let cid = rustc_middle::mir::interpret::GlobalId { instance, promoted: None };
    match tcx.eval_to_valtree(env.as_query_input(cid)) {
        Ok(vt) => valtree_json(tcx, ty, vt),
        _ => J::Null,
    }
}

pub fn dump_all<'tcx>(tcx: TyCtxt<'tcx>) -> J {
    let mut adts = Vec::new();
    let mut impls = Vec::new();
    let mut consts = Vec::new();
    let mut fns = Vec::new();
    for ldid in tcx.hir_crate_items(()).definitions() {
        let did = ldid.to_def_id();
        let dk = tcx.def_kind(ldid);
        match dk {
            DefKind::Struct | DefKind::Enum | DefKind::Union => {
                let adt = tcx.adt_def(did);
                let (file, line) = span_file_line(tcx, tcx.def_span(ldid));
                let mut variants = Vec::new();
                let discrs: Vec<(rustc_abi::VariantIdx, ty::util::Discr<'tcx>)> =
                    if adt.is_enum() { adt.discriminants(tcx).collect() } else { Vec::new() };
                for (vidx, v) in adt.variants().iter_enumerated() {
                    let fields: Vec<J> = v
                        .fields
                        .iter()
                        .map(|f| {
                            let fty = tcx.type_of(f.did).instantiate_identity().skip_norm_wip();
                            let mut ob = J::obj().ks("name", f.name.to_string()).ks("ty", tys(tcx, fty)).ks("vis", format!("{:?}", f.vis));
                            if let Some(l) = f.did.as_local() {
                                ob = ob.k("attrs", attrs_json(tcx, l));
                            }
                            ob.done()
                        })
                        .collect();
                    let mut ob = J::obj().ks("name", v.name.to_string()).ks("path", dp(tcx, v.def_id)).k("fields", J::Arr(fields));
                    if let Some((_, d)) = discrs.iter().find(|(i, _)| *i == vidx) {
                        // Discr.val holds the bits zero-extended; sign-extend for signed reprs
                        let v128: i128 = match d.ty.kind() {
                            ty::Int(ity) => {
                                let bits = rustc_abi::Integer::from_int_ty(&tcx, *ity).size();
                                bits.sign_extend(d.val) as i128
                            }
                            _ => d.val as i128,
                        };
                        ob = ob.ki("discr", v128).ks("discr_ty", tys(tcx, d.ty));
                    }
                    if let Some(l) = v.def_id.as_local() {
                        if adt.is_enum() {
                            ob = ob.k("attrs", attrs_json(tcx, l));
                        }
                    }
                    variants.push(ob.done());
                }
                adts.push(
                    J::obj()
                        .ks("path", dp(tcx, did))
                        .ks("kind", format!("{:?}", dk))
                        .ks("file", file)
                        .ki("line", line as i128)
                        .ks("repr", format!("{:?}", adt.repr()).chars().take(120).collect::<String>())
                        .ks("vis", format!("{:?}", tcx.visibility(did)))
                        .k("attrs", attrs_json(tcx, ldid))
                        .k("variants", J::Arr(variants))
                        .done(),
                );
            }
            DefKind::Impl { of_trait } => {
                let self_ty = tcx.type_of(did).instantiate_identity().skip_norm_wip();
                let sp = tcx.def_span(ldid);
                let (file, line) = span_file_line(tcx, sp);
                let mut ob = J::obj()
                    .ks("self", tys(tcx, self_ty))
                    .ks("file", file)
                    .ki("line", line as i128)
                    .kb("from_expansion", sp.from_expansion())
                    .k("macros", macro_names(sp))
                    .kb("automatically_derived", tcx.is_automatically_derived(did));
                if let ty::Adt(a, _) = self_ty.kind() {
                    ob = ob.ks("self_adt", dp(tcx, a.did()));
                }
                if of_trait {
                    let tr = tcx.impl_trait_ref(did).instantiate_identity().skip_norm_wip();
                    ob = ob.ks("trait", dp(tcx, tr.def_id)).ks("trait_ref", with_paths(tcx, format!("{}", tr.print_only_trait_path())));
                }
                let items: Vec<J> = tcx
                    .associated_item_def_ids(did)
                    .iter()
                    .map(|i| J::obj().ks("name", tcx.item_name(*i).to_string()).ks("path", dp(tcx, *i)).ks("dk", format!("{:?}", tcx.def_kind(*i))).done())
                    .collect();
                impls.push(ob.k("items", J::Arr(items)).done());
            }
            DefKind::Const { .. } | DefKind::AssocConst { .. } | DefKind::Static { .. } => {
                // skip the anonymous `const _: () = {...}` wrappers of derives
                let name = tcx.opt_item_name(did).map(|s| s.to_string()).unwrap_or_default();
                if name == "_" || name.is_empty() {
                    continue;
                }
                let ty = tcx.type_of(did).instantiate_identity().skip_norm_wip();
                let (file, line) = span_file_line(tcx, tcx.def_span(ldid));
                consts.push(
                    J::obj()
                        .ks("path", dp(tcx, did))
                        .ks("dk", format!("{:?}", dk).chars().take(24).collect::<String>())
                        .ks("ty", tys(tcx, ty))
                        .ks("file", file)
                        .ki("line", line as i128)
                        .ks("vis", format!("{:?}", tcx.visibility(did)))
                        .k("value", eval_const(tcx, did))
                        .done(),
                );
            }
            DefKind::Fn | DefKind::AssocFn => {
                let (file, line) = span_file_line(tcx, tcx.def_span(ldid));
                fns.push(
                    J::obj()
                        .ks("path", dp(tcx, did))
                        .ks("file", file)
                        .ki("line", line as i128)
                        .ks("vis", format!("{:?}", tcx.visibility(did)))
                        .kb("has_body", tcx.hir_maybe_body_owned_by(ldid).is_some())
                        .done(),
                );
            }
            _ => {}
        }
    }
    J::obj()
        .k("adts", J::Arr(adts))
        .k("impls", J::Arr(impls))
        .k("consts", J::Arr(consts))
        .k("fns", J::Arr(fns))
        .done()
}

fn with_paths(tcx: TyCtxt<'_>, s: String) -> String {
    s.replace("crate::", &format!("{}::", crate::hirdump::local_name(tcx)))
}
