//! MIR serialisation: `mir_built` of every fn-like body (M0) and, afterwards, the
//! drop-elaborated MIR (`optimized_mir` at mir-opt-level 0) of selected bodies (M1).

use crate::hirdump::{args_json, dp, resolve, span_file_line, tys};
use crate::json::J;
use rustc_hir::def::DefKind;
use rustc_hir::def_id::LocalDefId;
use rustc_middle::mir::{self, *};
use rustc_middle::ty::{self, TyCtxt};

fn fn_like(tcx: TyCtxt<'_>, ldid: LocalDefId) -> bool {
    matches!(tcx.def_kind(ldid), DefKind::Fn | DefKind::AssocFn | DefKind::Closure)
}

/// Clone every built body first: serialising resolves trait calls, and revealing an opaque
/// return type runs borrowck of its defining fn, which steals that fn's `mir_built`.
pub fn snapshot_built<'tcx>(tcx: TyCtxt<'tcx>) -> Vec<(LocalDefId, Body<'tcx>)> {
    let mut v = Vec::new();
    for &ldid in tcx.mir_keys(()).iter() {
        if !fn_like(tcx, ldid) {
            continue;
        }
        let body = tcx.mir_built(ldid).borrow().clone();
        v.push((ldid, body));
    }
    v
}

pub fn dump_built<'tcx>(tcx: TyCtxt<'tcx>, snap: &[(LocalDefId, Body<'tcx>)]) -> J {
    J::Arr(snap.iter().map(|(ldid, body)| dump_body(tcx, *ldid, body)).collect())
}

pub fn dump_elaborated<'tcx>(tcx: TyCtxt<'tcx>, filter: &[String]) -> J {
    let mut out = Vec::new();
    if filter.is_empty() {
        return J::Arr(out);
    }
    for &ldid in tcx.mir_keys(()).iter() {
        if !matches!(tcx.def_kind(ldid), DefKind::Fn | DefKind::AssocFn) {
            continue;
        }
        let path = dp(tcx, ldid.to_def_id());
        if !filter.iter().any(|f| path.contains(f.as_str())) {
            continue;
        }
        if tcx.asyncness(ldid).is_async() {
            continue;
        }
        let body = tcx.optimized_mir(ldid.to_def_id());
        out.push(dump_body(tcx, ldid, body));
    }
    J::Arr(out)
}

struct Mx<'a, 'tcx> {
    tcx: TyCtxt<'tcx>,
    owner: LocalDefId,
    body: &'a Body<'tcx>,
}

fn dump_body<'tcx>(tcx: TyCtxt<'tcx>, ldid: LocalDefId, body: &Body<'tcx>) -> J {
    let mx = Mx { tcx, owner: ldid, body };
    let (file, line) = span_file_line(tcx, body.span);
    // user variable names
    let mut names: Vec<Option<String>> = vec![None; body.local_decls.len()];
    for vdi in &body.var_debug_info {
        if let VarDebugInfoContents::Place(p) = vdi.value {
            if p.projection.is_empty() {
                names[p.local.as_usize()] = Some(vdi.name.to_string());
            }
        }
    }
    let locals: Vec<J> = body
        .local_decls
        .iter_enumerated()
        .map(|(l, d)| {
            let mut ob = J::obj().ks("ty", tys(tcx, d.ty));
            if let Some(n) = &names[l.as_usize()] {
                ob = ob.ks("name", n.clone());
            }
            if let mir::ClearCrossCrate::Set(_) = d.local_info {
                ob = ob.kb("user", d.is_user_variable());
            }
            ob.done()
        })
        .collect();
    let blocks: Vec<J> = body
        .basic_blocks
        .iter_enumerated()
        .map(|(_bb, data)| {
            let stmts: Vec<J> = data.statements.iter().filter_map(|s| mx.stmt(s)).collect();
            let term = match &data.terminator {
                Some(t) => mx.term(t),
                None => J::Null,
            };
            J::obj().k("s", J::Arr(stmts)).k("t", term).kb("cleanup", data.is_cleanup).done()
        })
        .collect();
    let kind = if body.coroutine.is_some() { "coroutine" } else { "fn" };
    let mut ob = J::obj()
        .ks("def", dp(tcx, ldid.to_def_id()))
        .ks("dk", format!("{:?}", tcx.def_kind(ldid)))
        .ks("kind", kind)
        .ks("file", file)
        .ki("line", line as i128)
        .ki("arg_count", body.arg_count as i128)
        .ks("phase", format!("{:?}", body.phase));
    if tcx.def_kind(ldid) == DefKind::Closure {
        ob = ob.ks("parent", dp(tcx, tcx.local_parent(ldid).to_def_id()));
    }
    ob.k("locals", J::Arr(locals)).k("blocks", J::Arr(blocks)).done()
}

impl<'a, 'tcx> Mx<'a, 'tcx> {
    fn line(&self, si: SourceInfo) -> i128 {
        span_file_line(self.tcx, si.span).1 as i128
    }

    fn place(&self, p: &Place<'tcx>) -> J {
        let mut proj = Vec::new();
        let mut cur_ty = mir::PlaceTy::from_ty(self.body.local_decls[p.local].ty);
        for elem in p.projection.iter() {
            let j = match elem {
                ProjectionElem::Deref => J::s("deref"),
                ProjectionElem::Field(f, _) => {
                    let mut ob = J::obj().ki("f", f.as_u32() as i128);
                    // field name where available
                    if let ty::Adt(adt, _) = cur_ty.ty.kind() {
                        let vidx = cur_ty.variant_index.unwrap_or(rustc_abi::FIRST_VARIANT);
                        if vidx.as_usize() < adt.variants().len() {
                            let v = adt.variant(vidx);
                            if f.as_usize() < v.fields.len() {
                                ob = ob.ks("name", v.fields[f].name.to_string());
                            }
                        }
                    }
                    ob.done()
                }
                ProjectionElem::Index(l) => J::obj().ki("index", l.as_u32() as i128).done(),
                ProjectionElem::ConstantIndex { offset, from_end, .. } => {
                    J::obj().ki("cindex", offset as i128).kb("from_end", from_end).done()
                }
                ProjectionElem::Subslice { from, to, from_end } => {
                    J::obj().ki("sub_from", from as i128).ki("sub_to", to as i128).kb("from_end", from_end).done()
                }
                ProjectionElem::Downcast(name, vidx) => J::obj()
                    .ki("downcast", vidx.as_u32() as i128)
                    .ks("vname", name.map(|s| s.to_string()).unwrap_or_default())
                    .done(),
                _ => J::s("opaque"),
            };
            proj.push(j);
            cur_ty = cur_ty.projection_ty(self.tcx, elem);
        }
        J::obj().ki("l", p.local.as_u32() as i128).k("p", J::Arr(proj)).done()
    }

    fn constant(&self, c: &ConstOperand<'tcx>) -> J {
        let ty = c.const_.ty();
        let mut ob = J::obj().ks("ty", tys(self.tcx, ty));
        match ty.kind() {
            ty::FnDef(did, args) => {
                ob = ob.ks("fn", dp(self.tcx, *did)).k("args", args_json(self.tcx, args));
                if let Some(r) = resolve(self.tcx, self.owner, *did, args) {
                    ob = ob.ks("resolved", r);
                }
                if let Some(t) = self.tcx.trait_of_assoc(*did) {
                    ob = ob.ks("trait", dp(self.tcx, t));
                }
            }
            ty::Bool | ty::Int(_) | ty::Uint(_) | ty::Char => {
                let env = ty::TypingEnv::post_analysis(self.tcx, self.owner);
                // only literal / already-evaluated values: evaluating named constants here would
                // steal their MIR; they are reported by name instead.
                match c.const_ {
                    Const::Val(..) | Const::Ty(..) => {
                        if let Some(si) = c.const_.try_eval_scalar_int(self.tcx, env) {
                            let size = si.size();
                            let bits = si.to_bits(size);
                            let v: i128 = if let ty::Int(_) = ty.kind() {
                                size.sign_extend(bits) as i128
                            } else {
                                bits as i128
                            };
                            ob = ob.ki("v", v);
                        }
                    }
                    Const::Unevaluated(uv, _) => {
                        ob = ob.ks("named", dp(self.tcx, uv.def));
                        if uv.promoted.is_some() {
                            ob = ob.kb("promoted", true);
                        }
                    }
                }
            }
            _ => match c.const_ {
                Const::Val(cv @ rustc_middle::mir::ConstValue::Slice { .. }, _) => {
                    if let Some(bytes) = cv.try_get_slice_bytes_for_diagnostics(self.tcx) {
                        if let Ok(s) = std::str::from_utf8(bytes) {
                            ob = ob.ks("str", s);
                        }
                    }
                }
                Const::Unevaluated(uv, _) => {
                    ob = ob.ks("named", dp(self.tcx, uv.def));
                    if uv.promoted.is_some() {
                        ob = ob.kb("promoted", true);
                    }
                }
                _ => {}
            },
        }
        ob.done()
    }

    fn operand(&self, o: &Operand<'tcx>) -> J {
        match o {
            Operand::Copy(p) => J::obj().k("copy", self.place(p)).done(),
            Operand::Move(p) => J::obj().k("move", self.place(p)).done(),
            Operand::Constant(c) => J::obj().k("const", self.constant(c)).done(),
            _ => J::obj().ks("other", "runtime_checks").done(),
        }
    }

    fn rvalue(&self, rv: &Rvalue<'tcx>) -> J {
        match rv {
            Rvalue::Use(o, ..) => J::obj().ks("k", "use").k("op", self.operand(o)).done(),
            Rvalue::Repeat(o, _) => J::obj().ks("k", "repeat").k("op", self.operand(o)).done(),
            Rvalue::Ref(_, bk, p) => J::obj()
                .ks("k", "ref")
                .ks("bk", match bk {
                    BorrowKind::Shared => "shared",
                    BorrowKind::Fake(_) => "fake",
                    BorrowKind::Mut { .. } => "mut",
                })
                .k("place", self.place(p))
                .done(),
            Rvalue::RawPtr(_, p) => J::obj().ks("k", "rawptr").k("place", self.place(p)).done(),
            Rvalue::Cast(kind, o, t) => J::obj()
                .ks("k", "cast")
                .ks("ck", format!("{:?}", kind).chars().take(48).collect::<String>())
                .k("op", self.operand(o))
                .ks("ty", tys(self.tcx, *t))
                .done(),
            Rvalue::BinaryOp(op, ab) => J::obj()
                .ks("k", "bin")
                .ks("op", format!("{:?}", op))
                .k("a", self.operand(&ab.0))
                .k("b", self.operand(&ab.1))
                .done(),
            Rvalue::UnaryOp(op, a) => J::obj().ks("k", "un").ks("op", format!("{:?}", op)).k("a", self.operand(a)).done(),
            Rvalue::Discriminant(p) => J::obj().ks("k", "disc").k("place", self.place(p)).done(),
            Rvalue::Aggregate(kind, fields) => {
                let fs: Vec<J> = fields.iter().map(|f| self.operand(f)).collect();
                let mut ob = J::obj().ks("k", "agg");
                match &**kind {
                    AggregateKind::Array(_) => ob = ob.ks("ak", "array"),
                    AggregateKind::Tuple => ob = ob.ks("ak", "tuple"),
                    AggregateKind::Adt(did, vidx, _, _, _) => {
                        let adt = self.tcx.adt_def(*did);
                        let v = adt.variant(*vidx);
                        ob = ob
                            .ks("ak", "adt")
                            .ks("adt", dp(self.tcx, *did))
                            .ks("variant", dp(self.tcx, v.def_id))
                            .ki("vidx", vidx.as_u32() as i128)
                            .k("fnames", J::Arr(v.fields.iter().map(|f| J::s(f.name.to_string())).collect()));
                    }
                    AggregateKind::Closure(did, _) => ob = ob.ks("ak", "closure").ks("def", dp(self.tcx, *did)),
                    AggregateKind::Coroutine(did, _) => ob = ob.ks("ak", "coroutine").ks("def", dp(self.tcx, *did)),
                    AggregateKind::CoroutineClosure(did, _) => {
                        ob = ob.ks("ak", "coroutine_closure").ks("def", dp(self.tcx, *did))
                    }
                    AggregateKind::RawPtr(..) => ob = ob.ks("ak", "rawptr"),
                }
                ob.k("fields", J::Arr(fs)).done()
            }
            Rvalue::CopyForDeref(p) => J::obj().ks("k", "use").k("op", J::obj().k("copy", self.place(p)).done()).done(),
            other => J::obj().ks("k", "other").ks("dbg", format!("{:?}", other).chars().take(60).collect::<String>()).done(),
        }
    }

    fn stmt(&self, s: &Statement<'tcx>) -> Option<J> {
        match &s.kind {
            StatementKind::Assign(b) => {
                let (p, rv) = &**b;
                Some(
                    J::obj()
                        .ks("k", "assign")
                        .ki("ln", self.line(s.source_info))
                        .k("place", self.place(p))
                        .k("rv", self.rvalue(rv))
                        .done(),
                )
            }
            StatementKind::SetDiscriminant { place, variant_index } => Some(
                J::obj()
                    .ks("k", "setdisc")
                    .k("place", self.place(place))
                    .ki("vidx", variant_index.as_u32() as i128)
                    .done(),
            ),
            StatementKind::StorageDead(l) => Some(J::obj().ks("k", "dead").ki("l", l.as_u32() as i128).done()),
            StatementKind::StorageLive(l) => Some(J::obj().ks("k", "live").ki("l", l.as_u32() as i128).done()),
            _ => None,
        }
    }

    fn term(&self, t: &Terminator<'tcx>) -> J {
        let ln = self.line(t.source_info);
        let exp = t.source_info.span.from_expansion();
        let base = J::obj().ki("ln", ln).kb("exp", exp);
        let unwind_target = |u: &UnwindAction| match u {
            UnwindAction::Cleanup(bb) => Some(J::Int(bb.as_u32() as i128)),
            _ => None,
        };
        match &t.kind {
            TerminatorKind::Goto { target } => base.ks("k", "goto").ki("target", target.as_u32() as i128).done(),
            TerminatorKind::SwitchInt { discr, targets } => {
                let vals: Vec<J> = targets.iter().map(|(v, _)| J::Int(v as i128)).collect();
                let tgts: Vec<J> = targets.iter().map(|(_, bb)| J::Int(bb.as_u32() as i128)).collect();
                let dty = discr.ty(&self.body.local_decls, self.tcx);
                base.ks("k", "switch")
                    .k("op", self.operand(discr))
                    .ks("dty", tys(self.tcx, dty))
                    .k("vals", J::Arr(vals))
                    .k("targets", J::Arr(tgts))
                    .ki("otherwise", targets.otherwise().as_u32() as i128)
                    .done()
            }
            TerminatorKind::Return => base.ks("k", "return").done(),
            TerminatorKind::Unreachable => base.ks("k", "unreachable").done(),
            TerminatorKind::UnwindResume => base.ks("k", "resume").done(),
            TerminatorKind::UnwindTerminate(_) => base.ks("k", "terminate").done(),
            TerminatorKind::Drop { place, target, unwind, .. } => base
                .ks("k", "drop")
                .k("place", self.place(place))
                .ks("pty", tys(self.tcx, place.ty(&self.body.local_decls, self.tcx).ty))
                .ki("target", target.as_u32() as i128)
                .ko("unwind", unwind_target(unwind))
                .done(),
            TerminatorKind::Call { func, args, destination, target, unwind, fn_span, .. } => {
                let a: Vec<J> = args.iter().map(|x| self.operand(&x.node)).collect();
                let mut ob = base
                    .ks("k", "call")
                    .k("func", self.operand(func))
                    .k("args", J::Arr(a))
                    .k("dest", self.place(destination))
                    .kb("fexp", fn_span.from_expansion());
                if let Some(t) = target {
                    ob = ob.ki("target", t.as_u32() as i128);
                }
                ob.ko("unwind", unwind_target(unwind)).done()
            }
            TerminatorKind::TailCall { func, args, .. } => {
                let a: Vec<J> = args.iter().map(|x| self.operand(&x.node)).collect();
                base.ks("k", "tailcall").k("func", self.operand(func)).k("args", J::Arr(a)).done()
            }
            TerminatorKind::Assert { cond, expected, msg, target, unwind } => {
                let kind = match &**msg {
                    AssertKind::BoundsCheck { .. } => "bounds".to_string(),
                    AssertKind::Overflow(op, ..) => format!("overflow:{:?}", op),
                    AssertKind::OverflowNeg(_) => "overflow:Neg".to_string(),
                    AssertKind::DivisionByZero(_) => "div0".to_string(),
                    AssertKind::RemainderByZero(_) => "rem0".to_string(),
                    AssertKind::ResumedAfterReturn(_) => "resumed_after_return".to_string(),
                    AssertKind::ResumedAfterPanic(_) => "resumed_after_panic".to_string(),
                    other => format!("{:?}", other).chars().take(30).collect(),
                };
                let mut ob = base
                    .ks("k", "assert")
                    .k("cond", self.operand(cond))
                    .kb("expected", *expected)
                    .ks("msg", kind)
                    .ki("target", target.as_u32() as i128);
                if let AssertKind::BoundsCheck { len, index } = &**msg {
                    ob = ob.k("len", self.operand(len)).k("index", self.operand(index));
                }
                ob.ko("unwind", unwind_target(unwind)).done()
            }
            TerminatorKind::Yield { value, resume, drop, .. } => {
                let mut ob = base.ks("k", "yield").k("value", self.operand(value)).ki("target", resume.as_u32() as i128);
                if let Some(d) = drop {
                    ob = ob.ki("drop", d.as_u32() as i128);
                }
                ob.done()
            }
            TerminatorKind::CoroutineDrop => base.ks("k", "coroutine_drop").done(),
            TerminatorKind::FalseEdge { real_target, imaginary_target } => base
                .ks("k", "goto")
                .ki("target", real_target.as_u32() as i128)
                .ki("imaginary", imaginary_target.as_u32() as i128)
                .done(),
            TerminatorKind::FalseUnwind { real_target, .. } => {
                base.ks("k", "goto").ki("target", real_target.as_u32() as i128).kb("false_unwind", true).done()
            }
            TerminatorKind::InlineAsm { .. } => base.ks("k", "asm").done(),
        }
    }
}
