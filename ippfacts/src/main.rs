//! ippfacts — a rustc driver that serialises what the compiler knows about the
//! workspace members of ancwrd1/ipp.rs into one JSON fact file per crate.
//!
//! It contains no property logic: resolved HIR trees, built MIR, elaborated MIR of
//! selected bodies, ADT / impl / const facts. The rule engine (Python) decides.
//!
//! Invoked as RUSTC_WORKSPACE_WRAPPER: argv = [driver, rustc, args...].
//! Environment:
//!   IPPFACTS_OUT    directory for fact files (required to act; otherwise plain rustc)
//!   IPPFACTS_CFG    configuration label written into the file and its name
//!   IPPFACTS_NONCE  run nonce echoed into the file (freshness proof)
//!   IPPFACTS_CRATES comma list of crate names to analyse (default: ipp,ipputil)
//!   IPPFACTS_M1     comma list of def-path substrings whose elaborated MIR is wanted

#![feature(rustc_private)]
#![allow(clippy::all)]

extern crate rustc_abi;
extern crate rustc_ast;
extern crate rustc_data_structures;
extern crate rustc_driver;
extern crate rustc_hir;
extern crate rustc_interface;
extern crate rustc_middle;
extern crate rustc_span;

mod hirdump;
mod json;
mod mirdump;
mod tydump;

use json::J;
use rustc_driver::Compilation;
use rustc_interface::interface::Compiler;
use rustc_middle::ty::TyCtxt;
use std::time::Instant;

struct Cb;

impl rustc_driver::Callbacks for Cb {
    fn after_expansion<'tcx>(&mut self, _compiler: &Compiler, tcx: TyCtxt<'tcx>) -> Compilation {
        let Ok(out_dir) = std::env::var("IPPFACTS_OUT") else {
            return Compilation::Continue;
        };
        let crate_name = tcx.crate_name(rustc_span::def_id::LOCAL_CRATE).to_string();
        let wanted = std::env::var("IPPFACTS_CRATES").unwrap_or_else(|_| "ipp,ipputil".to_string());
        if !wanted.split(',').any(|c| c == crate_name) {
            return Compilation::Continue;
        }
        // skip test harness builds (cargo check does not make them, but be safe)
        let t0 = Instant::now();
        let cfg = std::env::var("IPPFACTS_CFG").unwrap_or_else(|_| "X".to_string());
        let nonce = std::env::var("IPPFACTS_NONCE").unwrap_or_default();
        let m1_filter: Vec<String> = std::env::var("IPPFACTS_M1")
            .unwrap_or_default()
            .split(',')
            .filter(|s| !s.is_empty())
            .map(|s| s.to_string())
            .collect();

        let snap = mirdump::snapshot_built(tcx);
        let hir = hirdump::dump_all(tcx);
        let types = tydump::dump_all(tcx);
        let mir0 = mirdump::dump_built(tcx, &snap);
        drop(snap);
        // M1 last: computing optimized MIR steals mir_built.
        let mir1 = mirdump::dump_elaborated(tcx, &m1_filter);

        let features: Vec<J> = tcx
            .sess
            .opts
            .cg
            .target_feature
            .split(',')
            .filter(|s| !s.is_empty())
            .map(|s| J::s(s))
            .collect();
        let cfgs: Vec<J> = tcx
            .sess
            .config
            .iter()
            .filter_map(|(k, v)| {
                if k.as_str() == "feature" {
                    v.map(|v| J::s(v.to_string()))
                } else {
                    None
                }
            })
            .collect();
        let _ = features;
        let root = J::obj()
            .ks("crate", crate_name.clone())
            .ks("cfg", cfg.clone())
            .ks("nonce", nonce)
            .ks("rustc", env!("CARGO_PKG_VERSION"))
            .k("features", J::Arr(cfgs))
            .k("hir", hir)
            .k("types", types)
            .k("mir", mir0)
            .k("mir_elab", mir1)
            .ki("extract_ms", t0.elapsed().as_millis() as i128)
            .done();
        let mut s = String::with_capacity(1 << 22);
        root.write(&mut s);
        let path = format!("{}/{}.{}.json", out_dir, crate_name, cfg);
        let tmp = format!("{}.tmp{}", path, std::process::id());
        std::fs::write(&tmp, s).expect("ippfacts: cannot write fact file");
        std::fs::rename(&tmp, &path).expect("ippfacts: cannot rename fact file");
        Compilation::Continue
    }
}

fn main() {
    let mut args: Vec<String> = std::env::args().collect();
    // RUSTC_WORKSPACE_WRAPPER passes the real rustc path as argv[1]
    if args.len() > 1 && (args[1].ends_with("rustc") || args[1].contains("/rustc")) {
        args.remove(1);
    }
    rustc_driver::run_compiler(&args, &mut Cb);
}
