//! Resolved HIR trees of every fn-like / const body of the local crate.
//! Closures (and the coroutine closures of `async fn`) are inlined at their expression.

use crate::json::{Ob, J};
use rustc_ast::ast::LitKind;
use rustc_hir as hir;
use rustc_hir::def::{DefKind, Res};
use rustc_hir::def_id::{DefId, LocalDefId};
use rustc_middle::ty::print::{with_crate_prefix, with_no_trimmed_paths};
use rustc_middle::ty::{self, Ty, TyCtxt, TypeckResults};
use rustc_span::Span;
use std::collections::HashMap;

pub fn local_name(tcx: TyCtxt<'_>) -> String {
    tcx.crate_name(rustc_span::def_id::LOCAL_CRATE).to_string()
}

/// Pretty def path with the local crate's name instead of `crate`.
pub fn dp(tcx: TyCtxt<'_>, did: DefId) -> String {
    let s = with_crate_prefix!(with_no_trimmed_paths!(tcx.def_path_str(did)));
    s.replace("crate::", &format!("{}::", local_name(tcx)))
}

pub fn dp_args<'tcx>(tcx: TyCtxt<'tcx>, did: DefId, args: ty::GenericArgsRef<'tcx>) -> String {
    let s = with_crate_prefix!(with_no_trimmed_paths!(tcx.def_path_str_with_args(did, args)));
    s.replace("crate::", &format!("{}::", local_name(tcx)))
}

pub fn tys<'tcx>(tcx: TyCtxt<'tcx>, t: Ty<'tcx>) -> String {
    let s = with_crate_prefix!(with_no_trimmed_paths!(t.to_string()));
    s.replace("crate::", &format!("{}::", local_name(tcx)))
}

pub fn args_json<'tcx>(tcx: TyCtxt<'tcx>, args: ty::GenericArgsRef<'tcx>) -> J {
    J::Arr(
        args.iter()
            .filter_map(|a| a.as_type().map(|t| J::s(tys(tcx, t))))
            .collect(),
    )
}

pub fn span_file_line(tcx: TyCtxt<'_>, sp: Span) -> (String, usize) {
    let sp = sp.source_callsite();
    let loc = tcx.sess.source_map().lookup_char_pos(sp.lo());
    let name = format!("{}", loc.file.name.prefer_local_unconditionally());
    (name, loc.line)
}

/// Try to resolve a (trait) fn + args to the concrete fn that would be called.
pub fn resolve<'tcx>(tcx: TyCtxt<'tcx>, owner: LocalDefId, did: DefId, args: ty::GenericArgsRef<'tcx>) -> Option<String> {
    if !matches!(tcx.def_kind(did), DefKind::Fn | DefKind::AssocFn) {
        return None;
    }
    // only bother for trait methods
    tcx.trait_of_assoc(did)?;
    let env = ty::TypingEnv::post_analysis(tcx, owner);
    let args = tcx.erase_and_anonymize_regions(args);
    if args.has_infer() {
        return None;
    }
    match ty::Instance::try_resolve(tcx, env, did, args) {
        Ok(Some(inst)) => {
            let d = inst.def_id();
            if d != did {
                Some(dp(tcx, d))
            } else {
                None
            }
        }
        _ => None,
    }
}

use rustc_middle::ty::TypeVisitableExt;

struct Cx<'tcx> {
    tcx: TyCtxt<'tcx>,
    tr: &'tcx TypeckResults<'tcx>,
    owner: LocalDefId,
    macros: Vec<J>,
    macro_ix: HashMap<Span, usize>,
}

pub fn dump_all<'tcx>(tcx: TyCtxt<'tcx>) -> J {
    let mut out = Vec::new();
    for ldid in tcx.hir_body_owners() {
        let dk = tcx.def_kind(ldid);
        if !matches!(dk, DefKind::Fn | DefKind::AssocFn | DefKind::Const { .. } | DefKind::AssocConst { .. } | DefKind::Static { .. }) {
            continue;
        }
        let body = tcx.hir_body_owned_by(ldid);
        let tr = tcx.typeck(ldid);
        if tr.tainted_by_errors.is_some() {
            continue;
        }
        let mut cx = Cx { tcx, tr, owner: ldid, macros: Vec::new(), macro_ix: HashMap::new() };
        let (file, line) = span_file_line(tcx, tcx.def_span(ldid));
        let params: Vec<J> = body.params.iter().map(|p| cx.pat(p.pat)).collect();
        let value = cx.expr(body.value);
        let mut ob = J::obj()
            .ks("def", dp(tcx, ldid.to_def_id()))
            .ks("kind", format!("{:?}", dk))
            .ks("file", file)
            .ki("line", line as i128)
            .kb("from_expansion", tcx.def_span(ldid).from_expansion());
        // parent impl facts
        let parent = tcx.local_parent(ldid);
        if let DefKind::Impl { of_trait } = tcx.def_kind(parent) {
            ob = ob.ks("impl_self", tys(tcx, tcx.type_of(parent).instantiate_identity().skip_norm_wip()));
            if of_trait {
                let tr = tcx.impl_trait_ref(parent).instantiate_identity().skip_norm_wip();
                ob = ob.ks("impl_trait", dp(tcx, tr.def_id));
            }
        }
        if matches!(dk, DefKind::Fn | DefKind::AssocFn) {
            ob = ob.ks("vis", format!("{:?}", tcx.visibility(ldid)));
            let sig = tcx.fn_sig(ldid).instantiate_identity().skip_norm_wip().skip_binder();
            ob = ob.ks("ret", tys(tcx, sig.output()));
            ob = ob.k("inputs", J::Arr(sig.inputs().iter().map(|t| J::s(tys(tcx, *t))).collect()));
            ob = ob.kb("is_async", tcx.asyncness(ldid).is_async());
        }
        out.push(ob.k("params", J::Arr(params)).k("body", value).k("macros", J::Arr(cx.macros)).done());
    }
    J::Arr(out)
}

impl<'tcx> Cx<'tcx> {
    fn ty(&self, t: Ty<'tcx>) -> String {
        tys(self.tcx, t)
    }

    /// common node header
    fn hdr(&mut self, k: &str, e_span: Span, ty: Option<Ty<'tcx>>) -> Ob {
        let mut ob = J::obj().ks("k", k);
        if let Some(t) = ty {
            ob = ob.ks("ty", self.ty(t));
        }
        let (_, line) = span_file_line(self.tcx, e_span);
        ob = ob.ki("ln", line as i128);
        if e_span.from_expansion() {
            let names: Vec<J> = e_span
                .macro_backtrace()
                .map(|d| match d.kind {
                    rustc_span::hygiene::ExpnKind::Macro(_, name) => J::s(name.to_string()),
                    rustc_span::hygiene::ExpnKind::Desugaring(k) => J::s(format!("desugar:{:?}", k)),
                    rustc_span::hygiene::ExpnKind::AstPass(p) => J::s(format!("astpass:{:?}", p)),
                    rustc_span::hygiene::ExpnKind::Root => J::s("root"),
                })
                .collect();
            ob = ob.k("exp", J::Arr(names));
            // macro call site table (snippet of the outermost user-written macro call)
            let cs = e_span.source_callsite();
            let has_macro = e_span
                .macro_backtrace()
                .any(|d| matches!(d.kind, rustc_span::hygiene::ExpnKind::Macro(..)));
            if has_macro {
                let ix = match self.macro_ix.get(&cs) {
                    Some(ix) => *ix,
                    None => {
                        let snip = self.tcx.sess.source_map().span_to_snippet(cs).unwrap_or_default();
                        let (_, ln) = span_file_line(self.tcx, cs);
                        let ix = self.macros.len();
                        self.macros.push(J::obj().ks("snip", snip).ki("ln", ln as i128).done());
                        self.macro_ix.insert(cs, ix);
                        ix
                    }
                };
                ob = ob.ki("mx", ix as i128);
            }
        }
        ob
    }

    fn res(&mut self, res: Res, hir_id: hir::HirId) -> J {
        match res {
            Res::Local(id) => J::obj()
                .ks("r", "local")
                .ki("id", id.local_id.as_u32() as i128)
                .ks("name", self.tcx.hir_name(id).to_string())
                .done(),
            Res::Def(kind, did) => {
                let mut ob = J::obj().ks("r", "def").ks("dk", format!("{:?}", kind)).ks("path", dp(self.tcx, did));
                if let Some(args) = self.tr.node_args_opt(hir_id) {
                    if !args.is_empty() {
                        ob = ob.k("args", args_json(self.tcx, args));
                        if let Some(r) = resolve(self.tcx, self.owner, did, args) {
                            ob = ob.ks("resolved", r);
                        }
                    }
                }
                if let DefKind::Ctor(..) = kind {
                    // the variant/struct the constructor belongs to
                    ob = ob.ks("ctor_of", dp(self.tcx, self.tcx.parent(did)));
                }
                ob.done()
            }
            Res::SelfCtor(did) => J::obj().ks("r", "selfctor").ks("path", dp(self.tcx, did)).done(),
            Res::SelfTyAlias { alias_to, .. } => J::obj().ks("r", "selfty").ks("path", dp(self.tcx, alias_to)).done(),
            other => J::obj().ks("r", "other").ks("dbg", format!("{:?}", other)).done(),
        }
    }

    fn variant_path(&self, ty: Ty<'tcx>, res: Res) -> Option<String> {
        if let ty::Adt(adt, _) = ty.kind() {
            let v = match res {
                Res::Def(DefKind::Variant, did) => adt.variant_with_id(did),
                Res::Def(DefKind::Ctor(..), did) => adt.variant_with_ctor_id(did),
                _ => {
                    if adt.is_enum() {
                        return None;
                    }
                    adt.non_enum_variant()
                }
            };
            Some(dp(self.tcx, v.def_id))
        } else {
            None
        }
    }

    fn lit(&self, l: &hir::Lit) -> J {
        match l.node {
            LitKind::Str(s, _) => J::s(s.to_string()),
            LitKind::ByteStr(bs, _) | LitKind::CStr(bs, _) => {
                J::obj().k("bytes", J::Arr(bs.as_byte_str().iter().map(|b| J::Int(*b as i128)).collect())).done()
            }
            LitKind::Byte(b) => J::Int(b as i128),
            LitKind::Char(c) => J::obj().ks("char", c.to_string()).done(),
            LitKind::Int(v, _) => J::Int(v.get() as i128),
            LitKind::Float(s, _) => J::obj().ks("float", s.to_string()).done(),
            LitKind::Bool(b) => J::Bool(b),
            LitKind::Err(_) => J::Null,
        }
    }

    fn block(&mut self, b: &'tcx hir::Block<'tcx>) -> J {
        let ty = b.expr.and_then(|e| self.tr.expr_ty_opt(e));
        let stmts: Vec<J> = b.stmts.iter().map(|s| self.stmt(s)).collect();
        let mut ob = self.hdr("block", b.span, ty).k("stmts", J::Arr(stmts));
        if let Some(e) = b.expr {
            ob = ob.k("expr", self.expr(e));
        }
        ob.done()
    }

    fn stmt(&mut self, s: &'tcx hir::Stmt<'tcx>) -> J {
        match s.kind {
            hir::StmtKind::Let(l) => {
                let mut ob = self.hdr("let", s.span, None).k("pat", self.pat(l.pat)).ks("src", format!("{:?}", l.source));
                if let Some(i) = l.init {
                    ob = ob.k("init", self.expr(i));
                }
                if let Some(b) = l.els {
                    ob = ob.k("els", self.block(b));
                }
                ob.done()
            }
            hir::StmtKind::Item(_) => J::obj().ks("k", "item").done(),
            hir::StmtKind::Expr(e) => J::obj().ks("k", "expr").k("e", self.expr(e)).done(),
            hir::StmtKind::Semi(e) => J::obj().ks("k", "semi").k("e", self.expr(e)).done(),
        }
    }

    fn pat_expr(&mut self, pe: &'tcx hir::PatExpr<'tcx>) -> J {
        match &pe.kind {
            hir::PatExprKind::Lit { lit, negated } => {
                J::obj().ks("k", "lit").k("v", self.lit(lit)).kb("neg", *negated).done()
            }
            hir::PatExprKind::Path(qp) => {
                let res = self.tr.qpath_res(qp, pe.hir_id);
                J::obj().ks("k", "path").k("res", self.res(res, pe.hir_id)).done()
            }
        }
    }

    fn pat(&mut self, p: &'tcx hir::Pat<'tcx>) -> J {
        let ty = self.tr.node_type_opt(p.hir_id);
        match p.kind {
            hir::PatKind::Wild => self.hdr("wild", p.span, ty).done(),
            hir::PatKind::Binding(mode, id, ident, sub) => {
                let mut ob = self
                    .hdr("bind", p.span, ty)
                    .ks("name", ident.name.to_string())
                    .ki("id", id.local_id.as_u32() as i128)
                    .ks("mode", format!("{:?}", mode));
                if let Some(s) = sub {
                    ob = ob.k("sub", self.pat(s));
                }
                ob.done()
            }
            hir::PatKind::Struct(ref qp, fields, rest) => {
                let res = self.tr.qpath_res(qp, p.hir_id);
                let vp = ty.and_then(|t| self.variant_path(t, res));
                let fs: Vec<J> = fields
                    .iter()
                    .map(|f| J::obj().ks("name", f.ident.name.to_string()).k("p", self.pat(f.pat)).done())
                    .collect();
                self.hdr("pstruct", p.span, ty)
                    .ko("path", vp.map(J::s))
                    .k("fields", J::Arr(fs))
                    .kb("rest", rest.is_some())
                    .done()
            }
            hir::PatKind::TupleStruct(ref qp, pats, ddpos) => {
                let res = self.tr.qpath_res(qp, p.hir_id);
                let vp = ty.and_then(|t| self.variant_path(t, res));
                let ps: Vec<J> = pats.iter().map(|x| self.pat(x)).collect();
                self.hdr("ptuplestruct", p.span, ty)
                    .ko("path", vp.map(J::s))
                    .k("pats", J::Arr(ps))
                    .ko("ddpos", ddpos.as_opt_usize().map(|u| J::Int(u as i128)))
                    .done()
            }
            hir::PatKind::Or(pats) => {
                let ps: Vec<J> = pats.iter().map(|x| self.pat(x)).collect();
                self.hdr("por", p.span, ty).k("pats", J::Arr(ps)).done()
            }
            hir::PatKind::Tuple(pats, ddpos) => {
                let ps: Vec<J> = pats.iter().map(|x| self.pat(x)).collect();
                self.hdr("ptuple", p.span, ty)
                    .k("pats", J::Arr(ps))
                    .ko("ddpos", ddpos.as_opt_usize().map(|u| J::Int(u as i128)))
                    .done()
            }
            hir::PatKind::Box(x) | hir::PatKind::Deref(x) => self.hdr("pderef", p.span, ty).k("p", self.pat(x)).done(),
            hir::PatKind::Ref(x, _, m) => self.hdr("pref", p.span, ty).kb("mut", m.is_mut()).k("p", self.pat(x)).done(),
            hir::PatKind::Expr(pe) => {
                let inner = self.pat_expr(pe);
                // unit variant / const paths get their variant path resolved
                let mut ob = self.hdr("pexpr", p.span, ty).k("e", inner);
                if let hir::PatExprKind::Path(qp) = &pe.kind {
                    let res = self.tr.qpath_res(qp, pe.hir_id);
                    if let Some(vp) = ty.and_then(|t| self.variant_path(t, res)) {
                        if matches!(res, Res::Def(DefKind::Ctor(..) | DefKind::Variant, _)) {
                            ob = ob.ks("path", vp);
                        }
                    }
                }
                ob.done()
            }
            hir::PatKind::Guard(x, g) => self.hdr("pguard", p.span, ty).k("p", self.pat(x)).k("g", self.expr(g)).done(),
            hir::PatKind::Range(lo, hi, end) => {
                let mut ob = self.hdr("prange", p.span, ty).ks("end", format!("{:?}", end));
                if let Some(lo) = lo {
                    ob = ob.k("lo", self.pat_expr(lo));
                }
                if let Some(hi) = hi {
                    ob = ob.k("hi", self.pat_expr(hi));
                }
                ob.done()
            }
            hir::PatKind::Slice(a, m, b) => {
                let a: Vec<J> = a.iter().map(|x| self.pat(x)).collect();
                let b: Vec<J> = b.iter().map(|x| self.pat(x)).collect();
                let mut ob = self.hdr("pslice", p.span, ty).k("before", J::Arr(a)).k("after", J::Arr(b));
                if let Some(m) = m {
                    ob = ob.k("mid", self.pat(m));
                }
                ob.done()
            }
            _ => self.hdr("pother", p.span, ty).ks("dbg", format!("{:?}", p.kind).chars().take(60).collect::<String>()).done(),
        }
    }

    fn exprs(&mut self, es: &'tcx [hir::Expr<'tcx>]) -> J {
        J::Arr(es.iter().map(|e| self.expr(e)).collect())
    }

    fn expr(&mut self, e: &'tcx hir::Expr<'tcx>) -> J {
        use hir::ExprKind as K;
        if let K::DropTemps(inner) = e.kind {
            return self.expr(inner);
        }
        let ty = self.tr.expr_ty_opt(e);
        let adj = self.tr.expr_adjustments(e);
        let adj_j = if adj.is_empty() {
            None
        } else {
            let kinds: Vec<J> = adj
                .iter()
                .map(|a| {
                    let kind = match &a.kind {
                        ty::adjustment::Adjust::NeverToAny => "never".to_string(),
                        ty::adjustment::Adjust::Deref(d) => format!("deref:{:?}", d).chars().take(40).collect(),
                        ty::adjustment::Adjust::Borrow(b) => format!("borrow:{:?}", b).chars().take(40).collect(),
                        ty::adjustment::Adjust::Pointer(p) => format!("ptr:{:?}", p),
                        other => format!("{:?}", other).chars().take(40).collect(),
                    };
                    J::obj().ks("a", kind).ks("to", self.ty(a.target)).done()
                })
                .collect();
            Some(J::Arr(kinds))
        };
        let ob = match e.kind {
            K::Call(f, args) => {
                let mut ob = self.hdr("call", e.span, ty);
                if let K::Path(ref qp) = f.kind {
                    let res = self.tr.qpath_res(qp, f.hir_id);
                    if let Res::Def(_, did) = res {
                        ob = ob.ks("callee", dp(self.tcx, did));
                    }
                    // tuple-struct / variant constructor calls
                    if let Res::Def(DefKind::Ctor(..), _) | Res::SelfCtor(_) = res {
                        if let Some(vp) = ty.and_then(|t| self.variant_path(t, res)) {
                            ob = ob.ks("ctor", vp);
                        }
                    }
                }
                ob.k("f", self.expr(f)).k("args", self.exprs(args))
            }
            K::MethodCall(seg, recv, args, _) => {
                let mut ob = self.hdr("mcall", e.span, ty).ks("name", seg.ident.name.to_string());
                if let Some(did) = self.tr.type_dependent_def_id(e.hir_id) {
                    ob = ob.ks("callee", dp(self.tcx, did));
                    if let Some(ga) = self.tr.node_args_opt(e.hir_id) {
                        ob = ob.k("gargs", args_json(self.tcx, ga));
                        if let Some(r) = resolve(self.tcx, self.owner, did, ga) {
                            ob = ob.ks("resolved", r);
                        }
                    }
                }
                ob.k("recv", self.expr(recv)).k("args", self.exprs(args))
            }
            K::Use(inner, _) => self.hdr("use", e.span, ty).k("e", self.expr(inner)),
            K::Tup(es) => self.hdr("tup", e.span, ty).k("es", self.exprs(es)),
            K::Array(es) => self.hdr("array", e.span, ty).k("es", self.exprs(es)),
            K::Repeat(x, _) => self.hdr("repeat", e.span, ty).k("e", self.expr(x)),
            K::Binary(op, a, b) => {
                let mut ob = self.hdr("bin", e.span, ty).ks("op", format!("{:?}", op.node));
                if let Some(did) = self.tr.type_dependent_def_id(e.hir_id) {
                    ob = ob.ks("callee", dp(self.tcx, did));
                }
                ob.k("a", self.expr(a)).k("b", self.expr(b))
            }
            K::Unary(op, a) => self.hdr("un", e.span, ty).ks("op", format!("{:?}", op)).k("e", self.expr(a)),
            K::Lit(ref l) => self.hdr("lit", e.span, ty).k("v", self.lit(l)),
            K::Cast(x, _) => self.hdr("cast", e.span, ty).k("e", self.expr(x)),
            K::Type(x, _) => self.hdr("ascribe", e.span, ty).k("e", self.expr(x)),
            K::Let(l) => self.hdr("letx", e.span, ty).k("pat", self.pat(l.pat)).k("init", self.expr(l.init)),
            K::If(c, t, el) => {
                let mut ob = self.hdr("if", e.span, ty).k("c", self.expr(c)).k("t", self.expr(t));
                if let Some(el) = el {
                    ob = ob.k("e", self.expr(el));
                }
                ob
            }
            K::Loop(b, label, src, _) => {
                let mut ob = self.hdr("loop", e.span, ty).ks("src", format!("{:?}", src));
                if let Some(l) = label {
                    ob = ob.ks("label", l.ident.name.to_string());
                }
                ob.ki("id", e.hir_id.local_id.as_u32() as i128).k("body", self.block(b))
            }
            K::Match(s, arms, src) => {
                let src_s = match src {
                    hir::MatchSource::Normal => "normal".to_string(),
                    hir::MatchSource::Postfix => "postfix".to_string(),
                    hir::MatchSource::ForLoopDesugar => "for".to_string(),
                    hir::MatchSource::TryDesugar(_) => "try".to_string(),
                    hir::MatchSource::AwaitDesugar => "await".to_string(),
                    hir::MatchSource::FormatArgs => "format".to_string(),
                };
                let arms_j: Vec<J> = arms
                    .iter()
                    .map(|a| {
                        let mut ob = J::obj().k("pat", self.pat(a.pat));
                        if let Some(g) = a.guard {
                            ob = ob.k("guard", self.expr(g));
                        }
                        ob.k("body", self.expr(a.body)).done()
                    })
                    .collect();
                self.hdr("match", e.span, ty).ks("src", src_s).k("scrut", self.expr(s)).k("arms", J::Arr(arms_j))
            }
            K::Closure(c) => {
                let body = self.tcx.hir_body(c.body);
                let params: Vec<J> = body.params.iter().map(|p| self.pat(p.pat)).collect();
                let kind = match c.kind {
                    hir::ClosureKind::Closure => "closure".to_string(),
                    hir::ClosureKind::Coroutine(k) => format!("coroutine:{:?}", k),
                    hir::ClosureKind::CoroutineClosure(k) => format!("coroutine_closure:{:?}", k),
                };
                self.hdr("closure", e.span, ty)
                    .ks("def", dp(self.tcx, c.def_id.to_def_id()))
                    .ks("ckind", kind)
                    .ks("capture", format!("{:?}", c.capture_clause).chars().take(20).collect::<String>())
                    .k("params", J::Arr(params))
                    .k("body", self.expr(body.value))
            }
            K::Block(b, label) => {
                let mut ob = self.hdr("blockx", e.span, ty);
                if let Some(l) = label {
                    ob = ob.ks("label", l.ident.name.to_string());
                }
                ob.k("b", self.block(b))
            }
            K::Assign(l, r, _) => self.hdr("assign", e.span, ty).k("l", self.expr(l)).k("r", self.expr(r)),
            K::AssignOp(op, l, r) => self
                .hdr("assignop", e.span, ty)
                .ks("op", format!("{:?}", op.node))
                .k("l", self.expr(l))
                .k("r", self.expr(r)),
            K::Field(x, ident) => {
                let mut ob = self.hdr("field", e.span, ty).ks("name", ident.name.to_string());
                if let Some(ix) = self.tr.opt_field_index(e.hir_id) {
                    ob = ob.ki("ix", ix.as_u32() as i128);
                }
                ob.k("e", self.expr(x))
            }
            K::Index(b, i, _) => {
                let mut ob = self.hdr("index", e.span, ty);
                if let Some(did) = self.tr.type_dependent_def_id(e.hir_id) {
                    ob = ob.ks("callee", dp(self.tcx, did));
                }
                ob.k("b", self.expr(b)).k("i", self.expr(i))
            }
            K::Path(ref qp) => {
                let res = self.tr.qpath_res(qp, e.hir_id);
                let mut ob = self.hdr("path", e.span, ty);
                if let Res::Def(DefKind::Ctor(..), _) = res {
                    if let Some(vp) = ty.and_then(|t| self.variant_path(t, res)) {
                        ob = ob.ks("ctor", vp);
                    }
                }
                ob.k("res", self.res(res, e.hir_id))
            }
            K::AddrOf(_, m, x) => self.hdr("ref", e.span, ty).kb("mut", m.is_mut()).k("e", self.expr(x)),
            K::Break(dest, x) => {
                let mut ob = self.hdr("break", e.span, ty);
                if let Ok(t) = dest.target_id {
                    ob = ob.ki("target", t.local_id.as_u32() as i128);
                }
                if let Some(x) = x {
                    ob = ob.k("e", self.expr(x));
                }
                ob
            }
            K::Continue(dest) => {
                let mut ob = self.hdr("continue", e.span, ty);
                if let Ok(t) = dest.target_id {
                    ob = ob.ki("target", t.local_id.as_u32() as i128);
                }
                ob
            }
            K::Ret(x) => {
                let mut ob = self.hdr("ret", e.span, ty);
                if let Some(x) = x {
                    ob = ob.k("e", self.expr(x));
                }
                ob
            }
            K::Struct(qp, fields, tail) => {
                let res = self.tr.qpath_res(qp, e.hir_id);
                let vp = ty.and_then(|t| self.variant_path(t, res));
                let fs: Vec<J> = fields
                    .iter()
                    .map(|f| J::obj().ks("name", f.ident.name.to_string()).k("e", self.expr(f.expr)).done())
                    .collect();
                let mut ob = self.hdr("struct", e.span, ty).ko("path", vp.map(J::s)).k("fields", J::Arr(fs));
                if let hir::StructTailExpr::Base(b) = tail {
                    ob = ob.k("base", self.expr(b));
                }
                ob
            }
            K::Yield(x, src) => self
                .hdr("yield", e.span, ty)
                .ks("src", match src {
                    hir::YieldSource::Await { .. } => "await",
                    hir::YieldSource::Yield => "yield",
                })
                .k("e", self.expr(x)),
            K::DropTemps(_) => unreachable!(),
            _ => self
                .hdr("other", e.span, ty)
                .ks("dbg", format!("{:?}", e.kind).chars().take(40).collect::<String>()),
        };
        ob.ko("adj", adj_j).done()
    }
}
