//! Minimal JSON value + writer (no dependencies).

pub enum J {
    Null,
    Bool(bool),
    Int(i128),
    Str(String),
    Arr(Vec<J>),
    Obj(Vec<(String, J)>),
}

impl J {
    pub fn s<S: Into<String>>(s: S) -> J {
        J::Str(s.into())
    }
    pub fn obj() -> Ob {
        Ob(Vec::new())
    }
    pub fn write(&self, out: &mut String) {
        match self {
            J::Null => out.push_str("null"),
            J::Bool(b) => out.push_str(if *b { "true" } else { "false" }),
            J::Int(i) => out.push_str(&i.to_string()),
            J::Str(s) => write_str(s, out),
            J::Arr(v) => {
                out.push('[');
                for (i, x) in v.iter().enumerate() {
                    if i > 0 {
                        out.push(',');
                    }
                    x.write(out);
                }
                out.push(']');
            }
            J::Obj(v) => {
                out.push('{');
                for (i, (k, x)) in v.iter().enumerate() {
                    if i > 0 {
                        out.push(',');
                    }
                    write_str(k, out);
                    out.push(':');
                    x.write(out);
                }
                out.push('}');
            }
        }
    }
}

fn write_str(s: &str, out: &mut String) {
    out.push('"');
    for c in s.chars() {
        match c {
            '"' => out.push_str("\\\""),
            '\\' => out.push_str("\\\\"),
            '\n' => out.push_str("\\n"),
            '\r' => out.push_str("\\r"),
            '\t' => out.push_str("\\t"),
            c if (c as u32) < 0x20 => out.push_str(&format!("\\u{:04x}", c as u32)),
            c => out.push(c),
        }
    }
    out.push('"');
}

/// Object builder.
pub struct Ob(pub Vec<(String, J)>);

impl Ob {
    pub fn k(mut self, k: &str, v: J) -> Ob {
        self.0.push((k.to_string(), v));
        self
    }
    pub fn ks<S: Into<String>>(self, k: &str, v: S) -> Ob {
        self.k(k, J::Str(v.into()))
    }
    pub fn ki<I: Into<i128>>(self, k: &str, v: I) -> Ob {
        self.k(k, J::Int(v.into()))
    }
    pub fn kb(self, k: &str, v: bool) -> Ob {
        self.k(k, J::Bool(v))
    }
    pub fn ko(self, k: &str, v: Option<J>) -> Ob {
        match v {
            Some(v) => self.k(k, v),
            None => self,
        }
    }
    pub fn done(self) -> J {
        J::Obj(self.0)
    }
}
